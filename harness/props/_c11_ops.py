"""C11 operation table: every public operation named by the property, with its *contract*.

Contracts (what the documentation of the operation promises; the Lean heap model
`Splipy.Heap` gives each one a semantics and proves separation/isolation for all of them):

  query          no writes; the value returned is a number / tuple / None or a FRESH array
  fresh          no writes to operands; every object returned is built from fresh buffers and fresh
                 basis records (copying constructor / deepcopy)
  inplace        documented `:return: self`: writes only state owned by the receiver (operand 0),
                 returns the receiver
  procedure      in place on the receiver (operand 0), documented without a return value
  procedure_all  documented as manipulating ALL its spline operands, no return value
                 (`make_splines_compatible`, `make_splines_identical`, `SVG.transform`)

Exemptions (NOT in the property's list; they get no contract, and are recorded as such):

  accessor       hands out live internals by design (`__getitem__` views, …)
  no_operand     takes no existing spline object / basis as input (primitive factories, readers,
                 bookkeeping on a SplineModel that does not receive a patch)

`enumerate_public(sp)` introspects the CURRENT source; `crosscheck(sp)` compares it with the table
so that a new public callable without an entry (or a stale entry) is reported, fail-closed.
The same data is written as Lean (`regenerate_lean`) and the totality obligation re-proved there.
"""
import inspect
import io
import os
import re
import tempfile

import numpy as np

CONTRACTS = ('query', 'fresh', 'inplace', 'procedure', 'procedure_all')
EXEMPT = ('accessor', 'no_operand')


class Entry:
    def __init__(self, name, kind, shape=None, call=None, variants=1, pardims=(1, 2, 3), note='', allow_view_return=False):
        assert kind in CONTRACTS + EXEMPT, kind
        self.name, self.kind, self.shape, self.call = name, kind, shape, call
        self.variants, self.pardims, self.note = variants, tuple(pardims), note
        # a documented variant of the operation is an accessor handing out live internals by design
        self.allow_view_return = allow_view_return

    @property
    def contracted(self):
        return self.kind in CONTRACTS


TABLE = []
BY_NAME = {}


def op(name, kind, shape=None, call=None, variants=1, pardims=(1, 2, 3), note='', allow_view_return=False):
    e = Entry(name, kind, shape, call, variants, pardims, note, allow_view_return)
    assert name not in BY_NAME, name
    TABLE.append(e)
    BY_NAME[name] = e
    return e


# ------------------------------------------------------------------------------------------------
# helpers used by the call recipes (all deterministic functions of the operands)

def _mod(sp, name):
    import importlib
    return importlib.import_module(sp.__name__ + '.' + name)


def mid(o, frac=0.375):
    return [float(b.start() + (b.end() - b.start()) * frac) for b in o.bases]


def pts(o, n=3):
    return [np.linspace(b.start(), b.end(), n + 2)[1:-1] for b in o.bases]


def interior_knot(o, d=0):
    """An interior parameter that is not an existing knot if possible."""
    b = o.bases[d]
    return float(b.start() + (b.end() - b.start()) * 0.4375)


def _tmp(suffix):
    fd, path = tempfile.mkstemp(suffix=suffix, prefix='c11-')
    os.close(fd)
    return path


def _rm(path):
    try:
        os.unlink(path)
    except OSError:
        pass


# Argument values next to an object operand: dyadic (v=0/1 as before), NON-dyadic decimals, and amounts of
# very different magnitude (1e-3 … 1e16): (x + a) - a == x holds exactly only for the dyadic ones, so an
# operation that moves its operand there and back is visible bit for bit with the others.
PI = 3.141592653589793
VECTORS = [(0.5, 1.0, 2.0), (0.1, 0.2, 1.0 / 3.0), (1e-3, PI * 1e-3, 2.7e-3), (1e16 / 3.0, 0.1, 1e8 * PI)]
SCALARS = [2.0, 0.3, 1e-3 * PI, 1e16 / 3.0]
ANGLES = [0.25, 0.1, PI / 7.0, 1e-3]
WIDE_FROM = 2          # variants >= WIDE_FROM use non-dyadic / wide-magnitude arguments


def _sec_args(o, v):
    """Section arguments for variant v: 0 nothing fixed, 1 first direction fixed at 0, 2 last
    direction fixed at -1, 3 everything fixed (point case), 4 point case with unwrap_points=False."""
    pd = o.pardim
    if v == 0:
        return [None] * pd, {}
    if v == 1:
        return [0] + [None] * (pd - 1), {}
    if v == 2:
        return [None] * (pd - 1) + [-1], {}
    if v == 3:
        return [0] + [-1] * (pd - 1), {}
    return [-1] * pd, {'unwrap_points': False}


def _section(sp, a, v):
    args, kw = _sec_args(a[0], v)
    return a[0].section(*args, **kw)


def _evaluate(name):
    def f(sp, a, v):
        o = a[0]
        m = getattr(o, name)
        if v == 0:
            return m(*mid(o))
        if v == 1:
            return m(*pts(o))
        return m(*pts(o), tensor=False)
    return f


def _derivative(sp, a, v):
    o = a[0]
    if o.pardim == 1:
        return o.derivative(pts(o)[0] if v else mid(o)[0], d=1 + (v == 2))
    d = [0] * o.pardim
    d[v % o.pardim] = 1
    if v == 0:
        return o.derivative(*mid(o), d=tuple(d))
    return o.derivative(*pts(o), d=tuple(d), tensor=(v == 1))


def _tangent(sp, a, v):
    o = a[0]
    if v == 0:
        return o.tangent(*mid(o))
    return o.tangent(*pts(o), direction=0)


def _curve_q(name):
    def f(sp, a, v):
        c = a[0]
        return getattr(c, name)(pts(c)[0] if v else mid(c)[0])
    return f


def _split(sp, a, v):
    o = a[0]
    d = (o.pardim - 1) if v == 2 else 0
    b = o.bases[d]
    if v == 1:
        ks = [float(b.start() + (b.end() - b.start()) * f) for f in (0.25, 0.6875)]
        return o.split(ks, d)
    return o.split(interior_knot(o, d), d)


def _rebuild(sp, a, v):
    o = a[0]
    if o.pardim == 1:
        return o.rebuild(3, 5 + v)
    return o.rebuild([3] * o.pardim, [4 + v] * o.pardim)


def _raise_order(sp, a, v):
    o = a[0]
    if v == 0:
        return o.raise_order(1)
    if v == 1:
        return o.raise_order(0)
    if o.pardim == 1:
        return o.raise_order(2)
    return o.raise_order(1, direction=o.pardim - 1)


def _set_order(sp, a, v):
    o = a[0]
    if v == 0:
        return o.set_order(*[k + 1 for k in o.order()])
    return o.set_order(*o.order())


def _lower_order(sp, a, v):
    return a[0].lower_order(1 if v == 0 else 0)


def _swap(sp, a, v):
    o = a[0]
    if o.pardim == 1 or v == 0:
        return o.swap()
    return o.swap(0, o.pardim - 1)


def _insert_knot(sp, a, v):
    o = a[0]
    d = 0 if v == 0 else o.pardim - 1
    ks = interior_knot(o, d) if v < 2 else [interior_knot(o, d), float(mid(o, 0.71875)[d])]
    return o.insert_knot(ks, d)


def _refine(sp, a, v):
    o = a[0]
    return o.refine(1) if v == 0 else o.refine(2, direction=o.pardim - 1)


def _reparam(sp, a, v):
    o = a[0]
    if v == 0:
        return o.reparam()
    if v == 1:
        return o.reparam((1, 3), direction=0)
    return o.reparam(*[(0.5, 2.5)] * o.pardim)


def _translate(sp, a, v):
    o = a[0]
    if v < 2:
        return o.translate([1.0, -2.0, 0.5][: (o.dimension if v == 0 else 3)])
    return o.translate(list(VECTORS[v - 1])[: o.dimension])


def _rotate(sp, a, v):
    if v == 0:
        return a[0].rotate(0.3)
    if v == 1:
        return a[0].rotate(0.4, (1, 0, 0))
    return a[0].rotate(ANGLES[v - 1], (0.1, 0.2, 1.0 / 3.0) if v == 3 else (0, 0, 1))


def _set_dimension(sp, a, v):
    o = a[0]
    return o.set_dimension(3 if v == 0 else (2 if v == 1 else o.dimension))


def _lower_periodic(sp, a, v):
    o = a[0]
    k = o.bases[0].periodic
    return o.lower_periodic(max(k - 1, -1) if v == 0 else k, 0)


def _make_periodic(sp, a, v):
    o = a[0]
    d = 0 if v == 0 else o.pardim - 1
    return o.make_periodic(0 if v == 0 else None, d)


def _get_derivative_spline(sp, a, v):
    return a[0].get_derivative_spline() if v == 0 else a[0].get_derivative_spline(0)


def _construct(sp, a, v):
    o = a[0]
    if v == 0:
        return type(o)(*o.bases, o.controlpoints, o.rational, raw=True)
    cps = _mod(sp, 'utils').reshape(o.controlpoints.transpose(tuple(range(o.pardim))[::-1] + (o.pardim,)),
                           (len(o),), ncomps=o.controlpoints.shape[-1])
    return type(o)(*o.bases, cps, o.rational)


def _setitem(sp, a, v):
    o = a[0]
    if v == 0:
        o[0] = o[0] + 1
    else:
        o[(0,) * o.pardim + (slice(None),)] = 0.5
    return None


def _arith(name):
    def f(sp, a, v):
        o = a[0]
        if 'mul' in name or 'div' in name:
            x = 2.0 if v == 0 else [2.0, 0.5, 4.0]
            if 'div' in name:
                x = 2.0
            if v >= WIDE_FROM:
                x = SCALARS[v - 1]
        else:
            x = [1.0, -2.0, 0.5][: (o.dimension if v == 0 else 3)]
            if v >= WIDE_FROM:
                x = list(VECTORS[v - 1])[: o.dimension]
        return getattr(o, name)(x)
    return f


def _two(name):
    def f(sp, a, v):
        return getattr(type(a[0]), name)(a[0], a[1])
    return f


def _append(sp, a, v):
    return a[0].append(a[1])


def _error(sp, a, v):
    c = a[0]
    return c.error(lambda t: np.zeros((len(t), c.dimension)))


def _length(sp, a, v):
    c = a[0]
    return c.length() if v == 0 else c.length(*[float(x) for x in (mid(c, 0.25)[0], mid(c, 0.75)[0])])


def _const_par_curve(sp, a, v):
    s = a[0]
    return s.const_par_curve(interior_knot(s, v % 2), v % 2)


def _normal(sp, a, v):
    s = a[0]
    return s.normal(*mid(s)) if v == 0 else s.normal(*pts(s))


# --- factories ---------------------------------------------------------------------------------

def _cf_interpolate(sp, a, v):
    c = a[0]
    b = c.bases[0]
    x = c.evaluate(b.greville())
    if v == 0:
        return _mod(sp, 'curve_factory').interpolate(x, b)
    return _mod(sp, 'curve_factory').least_square_fit(x, b, b.greville())


def _cf_lsq(sp, a, v):
    c = a[0]
    b = c.bases[0]
    t = np.linspace(b.start(), b.end(), 3 * len(c) + 1)[:-1]
    return _mod(sp, 'curve_factory').least_square_fit(c.evaluate(t), b, t)


def _cf_manipulate(sp, a, v):
    return _mod(sp, 'curve_factory').manipulate(a[0], lambda x: 2 * x)


def _tensor_interp(modname, lsq):
    def f(sp, a, v):
        o = a[0]
        mod = _mod(sp, modname)
        u = [b.greville() for b in o.bases]
        x = o.evaluate(*u)
        if lsq:
            return mod.least_square_fit(x, o.bases, u)
        return mod.interpolate(x, o.bases) if v == 0 else mod.interpolate(x, o.bases, u)
    return f


def _factory1(modname, fname, *args, **kw):
    def f(sp, a, v):
        return getattr(_mod(sp, modname), fname)(a[0], *args, **kw)
    return f


def _extrude(modname):
    def f(sp, a, v):
        return _mod(sp, modname).extrude(a[0], VECTORS[v])
    return f


def _revolve(modname):
    def f(sp, a, v):
        fn = _mod(sp, modname).revolve
        if v == 0:
            return fn(a[0])
        if v == 1:
            return fn(a[0], 1.25, (1, 0, 1))
        return fn(a[0], ANGLES[v - 1] * 10, (0.1, 0.2, 1.0 / 3.0) if v == 2 else (1e-3, 1e3 * PI, 0.7))
    return f


def _thicken(sp, a, v):
    if v == 0:
        return _mod(sp, 'surface_factory').thicken(a[0], 0.25)
    if v == 1:
        return _mod(sp, 'surface_factory').thicken(a[0], lambda x, y, t: 0.125 + 0.0625 * t * t)
    return _mod(sp, 'surface_factory').thicken(a[0], 0.1 if v == 2 else 1e3 * PI)


def _nary(modname, fname, aslist=False):
    def f(sp, a, v):
        fn = getattr(_mod(sp, modname), fname)
        return fn(list(a)) if (aslist or v == 1) else fn(*a)
    return f


def _edge_curves4(sp, a, v):
    if v == 0:
        return _mod(sp, 'surface_factory').edge_curves(*a)
    # same loop given in scrambled order/orientation: exercises the re-ordering branch
    return _mod(sp, 'surface_factory').edge_curves(a[0], a[2], a[1], a[3])


def _patch(fname):
    def f(sp, a, v):
        return getattr(_mod(sp, 'surface_factory'), fname)(*a)
    return f


def _sweep(modname):
    def f(sp, a, v):
        return _mod(sp, modname).sweep(a[0], a[1])
    return f


# --- SplineModel ---------------------------------------------------------------------------------

def _model_for(sp, o):
    return _mod(sp, 'splinemodel').SplineModel(pardim=o.pardim, dimension=o.dimension)


def _model_add(sp, a, v):
    m = _model_for(sp, a[0])
    if v == 0:
        m.add(a[0])
    else:
        m.add([a[0]], raise_on_twins=False)
    return m


def _model_init(sp, a, v):
    o = a[0]
    return _mod(sp, 'splinemodel').SplineModel(pardim=o.pardim, dimension=o.dimension, objs=[o])


def _model_getitem(sp, a, v):
    m = _model_for(sp, a[0])
    m.add(a[0].clone() if v == 0 else _other_rationality_twin(sp, a[0]))
    return m[a[0]].node.obj      # the object the returned view refers to (owned by the model)


def _model_cps(sp, a, v):
    m = _model_for(sp, a[0])
    m.add(a[0])
    m.generate_cp_numbers()
    return m.cps()


def _catalogue(method):
    def f(sp, a, v):
        o = a[0]
        cat = _mod(sp, 'splinemodel').ObjectCatalogue(o.pardim)
        if method == 'lookup':
            cat.add(o.clone())
            cat.lookup(o)
        elif method == '__getitem__':
            cat.add(o.clone())
            cat[o]
        elif method == '__call__':
            cat(o)
        else:
            cat.add(o)
        return cat
    return f


def _other_rationality_twin(sp, o):
    """A same-shape object of the OTHER rationality (built from copies; not an operand)."""
    if o.rational:
        return type(o)(*o.bases, np.array(o.controlpoints[..., :-1]), False, raw=True)
    return o.clone().force_rational()


def _orientation(sp, a, v):
    o = a[0]
    comp = _mod(sp, 'splinemodel').Orientation.compute
    if v == 0:
        return comp(o)
    if v == 1:
        return comp(o, a[1])
    # mixed rational / non-rational comparison against a same-shape twin, in both argument orders
    twin = _other_rationality_twin(sp, o)
    return comp(o, twin) if v == 2 else comp(twin, o)


# --- io ------------------------------------------------------------------------------------------

def _g2_write(sp, a, v):
    G2 = _mod(sp, 'io').G2
    path = _tmp('.g2')
    try:
        with G2(path) as w:
            w.write(a[0] if v == 0 else [a[0], a[0]])
            w.fstream.close()
    finally:
        _rm(path)
    return None


def _svg_write(sp, a, v):
    SVG = _mod(sp, 'io').SVG
    path = _tmp('.svg')
    try:
        w = SVG(path)
        w.write(a[0] if v == 0 else [a[0]])
        held = list(w.all_objects)
        w.__exit__(None, None, None)
    finally:
        _rm(path)
    return held


def _svg_writer(sp):
    SVG = _mod(sp, 'io').SVG
    from xml.etree import ElementTree as etree
    w = SVG('unused-c11.svg')
    w.center, w.scale, w.offset = [0.0, 0.0], 10.0, [5.0, 5.0]
    w.xmlRoot = etree.Element('svg')
    return w


def _svg_write_curve(sp, a, v):
    w = _svg_writer(sp)
    w.write_curve(w.xmlRoot, a[0])
    return None


def _svg_write_surface(sp, a, v):
    w = _svg_writer(sp)
    w.write_surface(a[0])
    return None


def _svg_transform(sp, a, v):
    w = _svg_writer(sp)
    w.transform(a[0], 'translate(1,2) scale(2) rotate(30)' if v == 0 else 'matrix(1,0.5,0,1,2,3)')
    return None


def _svg_bezier(sp, a, v):
    svg = _mod(sp, 'io.svg')
    return svg.bezier_representation(a[0])


def _stl_write(method):
    def f(sp, a, v):
        STL = _mod(sp, 'io').STL
        path = _tmp('.stl')
        try:
            with STL(path, binary=(v == 0)) as w:
                if method == 'write':
                    w.write(a[0]) if v < 2 else w.write(a[0], n=3)
                else:
                    w.write_surface(a[0], None if v == 0 else 4)
        finally:
            _rm(path)
        return None
    return f


# ------------------------------------------------------------------------------------------------
# THE TABLE

SO = 'SplineObject.'
# queries
op(SO + 'evaluate', 'query', 'O', _evaluate('evaluate'), variants=3)
op(SO + '__call__', 'query', 'O', _evaluate('__call__'), variants=3)
op(SO + 'derivative', 'query', 'O', _derivative, variants=3)
op(SO + 'tangent', 'query', 'O', _tangent, variants=2)
op(SO + 'start', 'query', 'O', lambda sp, a, v: a[0].start() if v == 0 else a[0].start(0), variants=2)
op(SO + 'end', 'query', 'O', lambda sp, a, v: a[0].end() if v == 0 else a[0].end(0), variants=2)
op(SO + 'order', 'query', 'O', lambda sp, a, v: a[0].order() if v == 0 else a[0].order(0), variants=2)
op(SO + 'knots', 'query', 'O', lambda sp, a, v: a[0].knots() if v == 0 else a[0].knots(0), variants=2,
   note='only with_multiplicities=False is in the list; with_multiplicities=True hands out the live knot array by design (accessor)',
   allow_view_return=True)
op(SO + 'bounding_box', 'query', 'O', lambda sp, a, v: a[0].bounding_box())
op(SO + 'center', 'query', 'O', lambda sp, a, v: a[0].center())
op(SO + 'corners', 'query', 'O', lambda sp, a, v: a[0].corners('C' if v == 0 else 'F'), variants=2)
op(SO + 'periodic', 'query', 'O', lambda sp, a, v: a[0].periodic(0))
op(SO + 'pardim', 'query', 'O', lambda sp, a, v: a[0].pardim)
op(SO + 'shape', 'query', 'O', lambda sp, a, v: a[0].shape)
op(SO + '__len__', 'query', 'O', lambda sp, a, v: len(a[0]))
# new objects
op(SO + '__init__', 'fresh', 'O', _construct, variants=2,
   note='the copying constructor: bases are cloned, control points copied')
op(SO + 'clone', 'fresh', 'O', lambda sp, a, v: a[0].clone())
op(SO + 'section', 'fresh', 'O', _section, variants=5,
   note='includes the point case (all directions fixed), which the property lists as well')
op(SO + 'get_derivative_spline', 'fresh', 'O', _get_derivative_spline, variants=2)
op(SO + 'lower_order', 'fresh', 'O', _lower_order, variants=2)
op(SO + 'split', 'fresh', 'O', _split, variants=3)
op(SO + 'make_periodic', 'fresh', 'O', _make_periodic, variants=2)
for _n in ('__add__', '__radd__', '__sub__', '__mul__', '__rmul__', '__div__', '__truediv__'):
    op(SO + _n, 'fresh', 'O', _arith(_n), variants=4)
# in place, documented `:return: self`
op(SO + 'set_order', 'inplace', 'O', _set_order, variants=2)
op(SO + 'raise_order', 'inplace', 'O', _raise_order, variants=3)
op(SO + 'raise_order_implicit', 'inplace', 'O', lambda sp, a, v: a[0].raise_order_implicit(*[1] * a[0].pardim))
op(SO + 'reverse', 'inplace', 'O', lambda sp, a, v: a[0].reverse(0 if v == 0 else a[0].pardim - 1), variants=2)
op(SO + 'swap', 'inplace', 'O', _swap, variants=2)
op(SO + 'insert_knot', 'inplace', 'O', _insert_knot, variants=3)
op(SO + 'refine', 'inplace', 'O', _refine, variants=2)
op(SO + 'reparam', 'inplace', 'O', _reparam, variants=3)
op(SO + 'translate', 'inplace', 'O', _translate, variants=4)
op(SO + 'scale', 'inplace', 'O', lambda sp, a, v: a[0].scale(2.0) if v == 0 else (a[0].scale(2.0, 0.5, 4.0) if v == 1 else a[0].scale(SCALARS[v - 1])), variants=4)
op(SO + 'rotate', 'inplace', 'O', _rotate, variants=4)
op(SO + 'mirror', 'inplace', 'O', lambda sp, a, v: a[0].mirror((1.0, 2.0, -1.0)))
op(SO + 'project', 'inplace', 'O', lambda sp, a, v: a[0].project('xy' if v == 0 else 'y'), variants=2)
op(SO + 'lower_periodic', 'inplace', 'O', _lower_periodic, variants=2)
op(SO + 'set_dimension', 'inplace', 'O', _set_dimension, variants=3)
op(SO + 'force_rational', 'inplace', 'O', lambda sp, a, v: a[0].force_rational())
for _n in ('__iadd__', '__isub__', '__imul__', '__itruediv__', '__ifloordiv__', '__idiv__'):
    op(SO + _n, 'inplace', 'O', _arith(_n), variants=4)
op(SO + '__setitem__', 'procedure', 'O', _setitem, variants=2)
op(SO + 'make_splines_compatible', 'procedure_all', 'OO', _two('make_splines_compatible'))
op(SO + 'make_splines_identical', 'procedure_all', 'OO', _two('make_splines_identical'))
op(SO + '__getitem__', 'accessor', note='returns views of the control-point array by design')

CU = 'Curve.'
op(CU + '__init__', 'fresh', 'O', _construct, variants=2, pardims=(1,))
op(CU + 'evaluate', 'query', 'O', _evaluate('evaluate'), variants=3, pardims=(1,))
op(CU + 'derivative', 'query', 'O', _derivative, variants=3, pardims=(1,))
for _n in ('binormal', 'normal', 'curvature', 'torsion'):
    op(CU + _n, 'query', 'O', _curve_q(_n), variants=2, pardims=(1,))
op(CU + 'raise_order', 'inplace', 'O', _raise_order, variants=3, pardims=(1,))
op(CU + 'append', 'inplace', 'OO', _append, pardims=(1,),
   note='receiver extended in place; the appended curve is an operand that must stay unchanged and unaliased')
op(CU + 'continuity', 'query', 'O', lambda sp, a, v: a[0].continuity(mid(a[0])[0]), pardims=(1,))
op(CU + 'get_kinks', 'query', 'O', lambda sp, a, v: a[0].get_kinks(), pardims=(1,))
op(CU + 'length', 'query', 'O', _length, variants=2, pardims=(1,))
op(CU + 'rebuild', 'fresh', 'O', _rebuild, variants=2, pardims=(1,))
op(CU + 'error', 'query', 'O', _error, pardims=(1,))
op(CU + '__repr__', 'query', 'O', lambda sp, a, v: repr(a[0]), pardims=(1,))
op(CU + 'get_derivative_curve', 'fresh', 'O', lambda sp, a, v: a[0].get_derivative_curve(), pardims=(1,))

SU = 'Surface.'
op(SU + '__init__', 'fresh', 'O', _construct, variants=2, pardims=(2,))
op(SU + 'normal', 'query', 'O', _normal, variants=2, pardims=(2,))
op(SU + 'derivative', 'query', 'O', _derivative, variants=3, pardims=(2,))
op(SU + 'area', 'query', 'O', lambda sp, a, v: a[0].area(), pardims=(2,))
op(SU + 'edges', 'fresh', 'O', lambda sp, a, v: a[0].edges(), pardims=(2,))
op(SU + 'const_par_curve', 'fresh', 'O', _const_par_curve, variants=2, pardims=(2,))
op(SU + 'rebuild', 'fresh', 'O', _rebuild, variants=2, pardims=(2,))
op(SU + '__repr__', 'query', 'O', lambda sp, a, v: repr(a[0]), pardims=(2,))
op(SU + 'get_derivative_surface', 'fresh', 'O', lambda sp, a, v: a[0].get_derivative_surface(), pardims=(2,))

VO = 'Volume.'
op(VO + '__init__', 'fresh', 'O', _construct, variants=2, pardims=(3,))
op(VO + 'edges', 'fresh', 'O', lambda sp, a, v: a[0].edges(), pardims=(3,))
op(VO + 'faces', 'fresh', 'O', lambda sp, a, v: a[0].faces(), pardims=(3,))
op(VO + 'volume', 'query', 'O', lambda sp, a, v: a[0].volume(), pardims=(3,))
op(VO + 'rebuild', 'fresh', 'O', _rebuild, variants=2, pardims=(3,))
op(VO + '__repr__', 'query', 'O', lambda sp, a, v: repr(a[0]), pardims=(3,))
op(VO + 'get_derivative_volume', 'fresh', 'O', lambda sp, a, v: a[0].get_derivative_volume(0), pardims=(3,))

CF = 'curve_factory.'
for _n in ('line', 'polygon', 'n_gon', 'circle', 'ellipse', 'circle_segment_from_three_points', 'circle_segment',
           'cubic_curve', 'bezier', 'fit', 'fit_points'):
    op(CF + _n, 'no_operand', note='arguments are numbers / point arrays / callables')
op(CF + 'interpolate', 'fresh', 'O', _cf_interpolate, pardims=(1,), note='operand: the BSplineBasis passed in')
op(CF + 'least_square_fit', 'fresh', 'O', _cf_lsq, pardims=(1,), note='operand: the BSplineBasis passed in')
op(CF + 'manipulate', 'fresh', 'O', _cf_manipulate, pardims=(1,))

SF = 'surface_factory.'
for _n in ('square', 'disc', 'sphere', 'cylinder', 'torus', 'teapot'):
    op(SF + _n, 'no_operand', note='arguments are numbers / vectors')
op(SF + 'extrude', 'fresh', 'O', _extrude('surface_factory'), variants=4, pardims=(1,))
op(SF + 'revolve', 'fresh', 'O', _revolve('surface_factory'), variants=4, pardims=(1,))
op(SF + 'edge_curves', 'fresh', 'On2', _nary('surface_factory', 'edge_curves'), variants=2, pardims=(1,))
op(SF + 'edge_curves:4', 'fresh', 'LOOP4', _edge_curves4, variants=2, pardims=(1,),
   note='second call form of edge_curves (four curves); same public name')
op(SF + 'coons_patch', 'fresh', 'LOOP4', _patch('coons_patch'), pardims=(1,))
for _n in ('poisson_patch', 'elasticity_patch', 'finitestrain_patch'):
    op(SF + _n, 'fresh', 'LOOP4', _patch(_n), pardims=(1,), note='needs nutils 4 (ImportError otherwise)')
op(SF + 'thicken', 'fresh', 'O', _thicken, variants=4, pardims=(1,))
op(SF + 'sweep', 'fresh', 'PATH+C', _sweep('surface_factory'), pardims=(1,))
op(SF + 'loft', 'fresh', 'On', _nary('surface_factory', 'loft'), variants=2, pardims=(1,))
op(SF + 'interpolate', 'fresh', 'O', _tensor_interp('surface_factory', False), variants=2, pardims=(2,),
   note='operands: the BSplineBasis objects passed in')
op(SF + 'least_square_fit', 'fresh', 'O', _tensor_interp('surface_factory', True), pardims=(2,),
   note='operands: the BSplineBasis objects passed in')

VF = 'volume_factory.'
for _n in ('cube', 'sphere', 'torus', 'cylinder'):
    op(VF + _n, 'no_operand', note='arguments are numbers / vectors')
op(VF + 'revolve', 'fresh', 'O', _revolve('volume_factory'), variants=4, pardims=(2,))
op(VF + 'extrude', 'fresh', 'O', _extrude('volume_factory'), variants=4, pardims=(2,))
op(VF + 'edge_surfaces', 'fresh', 'On2', _nary('volume_factory', 'edge_surfaces'), variants=2, pardims=(2,))
op(VF + 'edge_surfaces:6', 'fresh', 'FACES6', _nary('volume_factory', 'edge_surfaces'), variants=2, pardims=(2,),
   note='second call form of edge_surfaces (six surfaces); same public name')
op(VF + 'sweep', 'fresh', 'PATH+S', _sweep('volume_factory'), pardims=(1,))
op(VF + 'loft', 'fresh', 'On', _nary('volume_factory', 'loft'), variants=2, pardims=(2,))
op(VF + 'interpolate', 'fresh', 'O', _tensor_interp('volume_factory', False), variants=2, pardims=(3,),
   note='operands: the BSplineBasis objects passed in')
op(VF + 'least_square_fit', 'fresh', 'O', _tensor_interp('volume_factory', True), pardims=(3,),
   note='operands: the BSplineBasis objects passed in')

SM = 'SplineModel.'
op(SM + '__init__', 'fresh', 'O', _model_init, note='objs=[patch]: result = the model')
op(SM + 'add', 'fresh', 'O', _model_add, variants=2,
   note='result = the model after add(patch): its state must not alias the patch')
op(SM + '__getitem__', 'fresh', 'O', _model_getitem, variants=2,
   note='lookup of a patch (v=1: the model holds a twin of the other rationality): the node object reached must not be the operand')
op(SM + 'cps', 'query', 'O', _model_cps)
for _n in ('add_callback', 'boundary', 'assign_boundary', 'generate_cp_numbers', 'generate_cell_numbers', 'faces',
           'summary', 'write_ifem'):
    op(SM + _n, 'no_operand', note='operates on the model only; takes no patch')
OC = 'ObjectCatalogue.'
for _n in ('add', 'lookup', '__call__', '__getitem__'):
    op(OC + _n, 'fresh', 'O', _catalogue(_n), note='result = the catalogue: its state must not alias the patch')
for _n in ('__init__', 'add_callback', 'top_nodes', 'nodes'):
    op(OC + _n, 'no_operand')
OR = 'Orientation.'
op(OR + 'compute', 'query', 'OO', _orientation, variants=4)
for _n in ('__init__', 'pardim', '__mul__', 'map_array', 'map_section', 'view_section', 'ifem_format'):
    op(OR + _n, 'no_operand')

op('G2.write', 'query', 'O', _g2_write, variants=2)
for _n in ('read_next_non_whitespace', 'circle', 'ellipse', 'line', 'cylinder', 'disc', 'plane', 'torus', 'sphere',
           'splines', 'surface_of_linear_extrusion', 'bounded_surface', '__init__', '__enter__', 'read', 'read_basis',
           '__exit__'):
    op('G2.' + _n, 'no_operand', note='reader / stream management')
op('SVG.write', 'fresh', 'O', _svg_write, variants=2, pardims=(1, 2), note='result = the objects the writer keeps')
op('SVG.write_curve', 'query', 'O', _svg_write_curve, pardims=(1,))
op('SVG.write_surface', 'query', 'O', _svg_write_surface, pardims=(2,))
op('SVG.transform', 'procedure_all', 'O', _svg_transform, variants=2, pardims=(1,),
   note='undocumented helper of the reader that transforms the given curve in place')
for _n in ('__init__', '__enter__', '__exit__', 'read', 'curves_from_path'):
    op('SVG.' + _n, 'no_operand', note='reader / stream management')
op('svg.bezier_representation', 'fresh', 'O', _svg_bezier, pardims=(1,))
op('svg.read_number_and_unit', 'no_operand')
op('STL.write', 'query', 'O', _stl_write('write'), variants=3, pardims=(2, 3))
op('STL.write_surface', 'query', 'O', _stl_write('write_surface'), variants=2, pardims=(2,))
for _n in ('__init__', '__enter__', '__exit__'):
    op('STL.' + _n, 'no_operand', note='stream management')

WIDE_ARG_OPS = {SF + 'extrude', VF + 'extrude', SF + 'revolve', VF + 'revolve', SF + 'thicken', SO + 'translate', SO + 'rotate', SO + 'scale'} | \
    {SO + n for n in ('__add__', '__radd__', '__sub__', '__mul__', '__rmul__', '__div__', '__truediv__', '__iadd__', '__isub__', '__imul__',
                      '__itruediv__', '__ifloordiv__', '__idiv__')}
# Operations that cannot succeed in this environment (still run: operands must stay unchanged).
ALWAYS_RAISES = {SF + 'poisson_patch', SF + 'elasticity_patch', SF + 'finitestrain_patch'}   # need nutils 4
# call-form aliases ("name:k") refer to the public name before ':'
PUBLIC_NAME = lambda n: n.split(':')[0]  # noqa: E731


# ------------------------------------------------------------------------------------------------
# enumeration of the public API from the source, and the cross-check

_SKIP_DUNDER = {'__doc__', '__module__', '__dict__', '__weakref__', '__qualname__', '__annotations__',
                '__firstlineno__', '__static_attributes__', '__hash__', '__abstractmethods__', '__slots__',
                '__orig_bases__', '__parameters__'}


def _public_members(cls):
    out = []
    for n, v in cls.__dict__.items():
        if n in _SKIP_DUNDER:
            continue
        if n.startswith('_') and not (n.startswith('__') and n.endswith('__')):
            continue
        if callable(v) or isinstance(v, (property, classmethod, staticmethod)):
            out.append(n)
    return out


def _public_functions(mod):
    return [n for n, v in vars(mod).items()
            if inspect.isfunction(v) and v.__module__ == mod.__name__ and not n.startswith('_')]


def enumerate_public(sp):
    """Names of the public operations of the anchors named by the property, from the live source."""
    import importlib
    names = []
    for cls in (sp.SplineObject, sp.Curve, sp.Surface, sp.Volume):
        names += ['%s.%s' % (cls.__name__, n) for n in _public_members(cls)]
    for modname in ('curve_factory', 'surface_factory', 'volume_factory'):
        mod = importlib.import_module(sp.__name__ + '.' + modname)
        names += ['%s.%s' % (modname, n) for n in _public_functions(mod)]
    sm = importlib.import_module(sp.__name__ + '.splinemodel')
    for cls in (sm.SplineModel, sm.ObjectCatalogue, sm.Orientation):
        names += ['%s.%s' % (cls.__name__, n) for n in _public_members(cls)]
    for modname, clsname in (('g2', 'G2'), ('svg', 'SVG'), ('stl', 'STL')):
        mod = importlib.import_module(sp.__name__ + '.io.' + modname)
        names += ['%s.%s' % (clsname, n) for n in _public_members(getattr(mod, clsname))]
        if modname == 'svg':
            names += ['svg.%s' % n for n in _public_functions(mod)]
    seen, out = set(), []
    for n in names:
        if n not in seen:
            seen.add(n)
            out.append(n)
    return out


def crosscheck(sp):
    public = enumerate_public(sp)
    tabled = {PUBLIC_NAME(e.name) for e in TABLE}
    missing = [n for n in public if n not in tabled]          # new public op without an entry
    stale = sorted(n for n in tabled if n not in set(public))  # entry whose op disappeared
    return {'public': public, 'missing': missing, 'stale': stale}


# ------------------------------------------------------------------------------------------------
# Lean generation

def lean_ident(name):
    s = re.sub(r'[^A-Za-z0-9]', '_', name)
    return 'op_' + s


_LEAN_CONTRACT = {'query': 'query', 'fresh': 'fresh', 'inplace': 'inPlace', 'procedure': 'procedure',
                  'procedure_all': 'procedureAll'}


def lean_table_source(public, effects=None, inconsistent=()):
    """Generated/C11.lean: the public API (from introspection) as an inductive type, the table
    (from this file) as a function `entry : OpId -> Option Entry`."""
    # every op the driver may be asked about: the public names plus call-form aliases of the table
    names = list(public)
    for e in TABLE:
        if e.name not in names and PUBLIC_NAME(e.name) in public:
            names.append(e.name)
    L = []
    L.append('import Splipy.Model.Heap')
    L.append('')
    L.append('/-! GENERATED by harness/props/_c11_ops.py (`regenerate`) on every run of `./check C11`.')
    L.append('`OpId` enumerates the public operations found by introspecting the CURRENT source of the')
    L.append('anchors of property C11 (plus the extra call forms `name:k` of the table); `entry` is the')
    L.append('hand-written contract table.  A public operation without an entry maps to `none`, which')
    L.append('makes `C11_contract_table_total` (Generated/C11Obligations.lean) fail. -/')
    L.append('')
    L.append('namespace Splipy.Generated.C11')
    L.append('open Splipy.Heap')
    L.append('')
    L.append('inductive OpId where')
    for n in names:
        L.append('  | %s' % lean_ident(n))
    L.append('  deriving DecidableEq, Repr')
    L.append('')
    L.append('def OpId.all : List OpId := [')
    L.append(',\n'.join('  .%s' % lean_ident(n) for n in names))
    L.append(']')
    L.append('')
    L.append('def OpId.name : OpId → String')
    for n in names:
        L.append('  | .%s => "%s"' % (lean_ident(n), n))
    L.append('')
    L.append('/-- `true` for an operation found in the source, `false` for an extra call form of the table. -/')
    L.append('def OpId.isPublic : OpId → Bool')
    for n in names:
        L.append('  | .%s => %s' % (lean_ident(n), 'true' if n in public else 'false'))
    L.append('')
    L.append('def entry : OpId → Option Entry')
    for n in names:
        e = BY_NAME.get(n)
        if e is None:
            continue
        if e.contracted:
            L.append('  | .%s => some (.contract .%s)' % (lean_ident(n), _LEAN_CONTRACT[e.kind]))
        else:
            L.append('  | .%s => some (.exempt .%s)' % (lean_ident(n), 'accessor' if e.kind == 'accessor' else 'noOperand'))
    if any(n not in BY_NAME for n in names):
        L.append('  | _ => none')
    L.append('')
    L.append('def lookup (s : String) : Option OpId := OpId.all.find? (fun o => o.name == s)')
    L.append('')
    L.append('/-- Effect summaries inferred from the CURRENT library sources by the AST effect inference')
    L.append('    (harness/props/_c11_effects.py); `Effect.notAnalysed` where no source function is analysed. -/')
    L.append('def effect : OpId → Effect')
    effects = effects or {}
    some = False
    for n in names:
        ef = effects.get(n)
        if ef is None or not ef.analysed:
            continue
        some = True
        rets = ', '.join({'param': '.param %d' % i, 'view': '.view %d' % i, 'fresh': '.fresh', 'none': '.none_',
                          'unknown': '.unknown'}[k] for k, i in ef.returns)
        caps = ', '.join('(%d, %d)' % c for c in ef.captures)
        allow = 'true' if (BY_NAME.get(n) and BY_NAME[n].allow_view_return) else 'false'
        L.append('  | .%s => { analysed := true, operands := %s, stores := %s, storesUnknown := %s, returns := [%s], captures := [%s], allowViewReturn := %s }'
                 % (lean_ident(n), list(ef.operands), list(ef.stores), 'true' if ef.stores_unknown else 'false', rets, caps, allow))
    if not some or any((effects.get(n) is None or not effects[n].analysed) for n in names):
        L.append('  | _ => Effect.notAnalysed')
    L.append('')
    L.append('/-- Operations whose source the inference finds INCONSISTENT with their contract (regenerated;')
    L.append('    each one is reported as a failing obligation of the run, with its finding class if it has one). -/')
    L.append('def inconsistentOps : List OpId := [%s]' % ', '.join('.' + lean_ident(n) for n in inconsistent))
    L.append('')
    L.append('/-- Is the contract of `o` consistent with the effect read off its source?  (`true` for exempt entries.) -/')
    L.append('def consistentAt (o : OpId) : Bool :=')
    L.append('  match entry o with')
    L.append('  | some (.contract c) => Consistent c (effect o)')
    L.append('  | _ => true')
    L.append('')
    L.append('def contracted (o : OpId) : Bool := match entry o with | some (.contract _) => true | _ => false')
    L.append('')
    L.append('end Splipy.Generated.C11')
    L.append('')
    return '\n'.join(L)


def lean_obligations_source(counts=None):
    return '''import Splipy.Generated.C11

/-! GENERATED by harness/props/_c11_ops.py (`regenerate`).  Source-derived obligation of C11:
every public operation of the anchors (as enumerated from the current source) has an entry in the
contract table: a contract, or an explicit exemption (accessor handing out live internals by design /
takes no existing object).  Re-proved on every run; a new public method without an entry breaks it. -/

open Splipy.Generated.C11 Splipy.Heap

theorem C11_contract_table_total : ∀ o : OpId, (entry o).isSome = true := by
  intro o; cases o <;> rfl

/-- The enumeration used by the driver is complete. -/
theorem C11_contract_table_enumeration_complete : ∀ o : OpId, o ∈ OpId.all := by
  intro o; cases o <;> decide

/-- Every operation that has a *contract* is one of the five contract classes the heap model
    gives a semantics to (true by construction of `Entry`; stated for the record). -/
theorem C11_contract_table_contracts_modelled :
    ∀ o : OpId, ∀ c, entry o = some (.contract c) →
      c = .query ∨ c = .fresh ∨ c = .inPlace ∨ c = .procedure ∨ c = .procedureAll := by
  intro o c _; cases c <;> simp
''' + ('' if counts is None else '''
/-- **Contracts against the source.**  For every operation whose body the effect inference analysed
    (methods of SplineObject/Curve/Surface/Volume, functions of the three factory modules), the
    contract of the table is consistent with the effect summary read off the CURRENT source
    (`Splipy.Heap.Consistent`), except for the operations listed in `inconsistentOps`, which are
    reported as failing obligations of the run. -/
theorem C11_contracts_consistent_with_source :
    ∀ o : OpId, inconsistentOps.contains o = false → consistentAt o = true := by
  intro o; cases o <;> decide

/-- The exception list is exact: every operation in it IS inconsistent with its contract. -/
theorem C11_source_inconsistencies_confirmed : ∀ o ∈ inconsistentOps, consistentAt o = false := by
  decide

/-- **Coverage of the source check** (numbers regenerated, re-checked here): of the contracted
    operations, how many are checked against the source completely / with some aspect unknown /
    not at all (dynamic experiment only). -/
theorem C11_source_check_coverage :
    (OpId.all.filter (fun o => contracted o && (effect o).fullyChecked)).length = %(full)d ∧
    (OpId.all.filter (fun o => contracted o && (effect o).partlyChecked)).length = %(partial)d ∧
    (OpId.all.filter (fun o => contracted o && !(effect o).analysed)).length = %(none)d :=
  ⟨by rfl, by rfl, by rfl⟩
''' % counts)
