"""C16 — lengths, areas, volumes, centres and curvatures are representation independent.

Correspondence (real code vs the Lean model of Model/Measure.lean, run at Q):
  * BSplineBasis.integrate(t0, t1) on every basis family and sub-interval, including the clamping of
    out-of-domain limits and the periodic seam refusal (a TypeError in Python 3),
  * SplineObject.center() (rational too),
  * Volume.volume() as a number; Curve.length(t0, t1) and Surface.area() through the mapped weights
    and the per-node squared speeds / area elements (the model gets the float Gauss-Legendre nodes the
    code uses as exact rationals; the square roots are taken here),
  * Curve.curvature / torsion / binormal / normal for scalar, list and one-element-list input (the
    model returns the cross/dot products, the roots and quotients are formed here).
Oracle (model independent, real code only):
  * basis integrals vs exact integration of the Cox-de Boor polynomial pieces (Fractions),
  * centre vs the exact projective integral,
  * length/area/volume/centre before vs after insert_knot, raise_order, split-and-sum, reverse, swap,
    rotation+translation, mirror, uniform scaling.  Tolerance 1e-9 relative where the integrand is a
    polynomial the rule integrates exactly or where the node sets correspond; otherwise an error
    budget = sum over elements of |element value by the code's rule - element value by a high-order
    reference rule| for both representations, and the error must shrink under `refine`,
  * convergence to the analytic values for circle, arc, sphere, cylinder, torus, disc (errors
    decrease, final error < 1e-6 relative),
  * Frenet frame orthonormal, curvature/torsion vs the exact formulas (Fractions, Leibniz rule for
    rational curves), scalar call == array call, rotation/scaling behaviour, circle = 1/r, twisted cubic.

Findings seen on the originally pinned tree, since FIXED in /repo (274e74a torsion, ea90458
Curve.derivative squeeze, fc5b45b integrate sums all periodic images); the classify labels are kept so
that a regression is reported by name, and the sentinels at the head of the case list replay them
(the model agrees with the fixed code; `integrate`'s collapse is now mirrored literally):
  * torsion-scalar-branch-uses-acceleration: Curve.torsion(t) with scalar t forms dot(v x a, a) == 0
    instead of dot(v x a, a'), so it returns 0 for every curve;
  * rational-curve-one-element-list-derivative-squeezed: Curve.derivative(t=[t0], d=2|3) of a rational
    curve returns shape (dim,) instead of (1, dim); torsion([t0]) then returns a (1,3) array of
    garbage and binormal/normal([t0]) raise IndexError;
  * integrate-periodic-collapse-single-fold: BSplineBasis.integrate folds the periodic images once
    (N[j] += N[-k-1+j]); for periodic bases with num_functions < periodic+1 images are lost, the
    integrals do not add up to t1-t0, and SplineObject.center is wrong.
Not a finding (outside the quantifier "sub-intervals of the domain"): integrate across the seam of
a periodic basis raises TypeError ('NotImplementedType' object is not callable) — `raise
NotImplemented(...)`; the model mirrors that class (tag integrate:seam-refusal).
Seeded changes this module is built to catch: a closed-form `center` weight (t[i+p]-t[i])/p (wrong on
unclamped / half-clamped non-periodic directions: tags *:non-open; exact integral mean + translation
covariance) and `t0 = t0 or start` in `length` (a bound equal to 0: tag length:bound=0).
Quadrature-ERROR clauses of the property (insertion/elevation/splitting with non-polynomial
integrands, convergence to analytic values) are oracle-only: no theorem covers them.
"""
from fractions import Fraction as F
import itertools
import math
import sys
from math import pi

import numpy as np

from vlib import gen, exact
from vlib.val import line, Word, is_err
from vlib.compare import diff, Err, to_plain

if hasattr(sys, 'set_int_max_str_digits'):
    sys.set_int_max_str_digits(0)      # exact model results can have thousands of digits

ID = 'C16'
PYOVERRIDE_METHODS = ['Curve.derivative', 'Surface.derivative']   # Curve/Surface overrides re-translated and proved equal to the hand model each run
PYBASIS_METHODS = ['integrate']   # basis.py methods re-translated and proved equal to the hand model each run
RTOL = 1e-9
ATOL = 1e-11
ALLCLOSE_ATOL = 1e-8     # np.allclose(x, 0) default absolute tolerance (Curve.binormal)
RULE = ('integrate: orders 1..5, open / non-open / periodic (every continuity) bases, intervals = whole domain, knot to knot, '
        'span interiors, single points, reversed, partly or wholly outside (clamped; periodic: seam refusal); center: random '
        'objects pardim 1-3, rational with positive weights, periodic directions, unclamped / half-clamped non-periodic directions (basis functions reaching outside the domain; also in length/area/volume/representation changes); volume: random trivariate objects orders 2..4, plus non-rational volumes (and planar surfaces) with DIFFERENT orders per direction in every arrangement ((p,q,p), (q,p,p), (p,p,q), all distinct; p up to 5) and full-degree control nets, measured directly and under swap of every pair / raise / insert / split / reverse of single directions; '
        'length: curves orders 2..5 dim 2-4 incl. rational/periodic, with t0/t1 = None, knots, span interiors, the value 0 strictly inside the domain, t0>t1; area: '
        'surfaces dim 2 and 3 (and 4: ValueError); curvature/torsion/binormal/normal: scalar, list and one-element list input, '
        'both sides at knots; representation changes on the real code: insert_knot, raise_order, split, reverse, swap, rotate+translate, '
        'mirror, scale (periodic directions are only refined/inserted/moved: reverse/raise/split of periodic directions belong to '
        'C05-C07); primitives: circle (both types), arc, disc, sphere, cylinder, torus (surfaces and solids).  distinct = distinct '
        'protocol lines; non-trivial = the call returns a value.')
REQUIRED_TAGS = ['form=integrate', 'integrate:open', 'integrate:nonopen', 'integrate:periodic', 'integrate:seam-refusal',
                 'integrate:clamped', 'integrate:p=1', 'form=center', 'center:rational', 'center:periodic', 'center:non-open',
                 'length:non-open', 'length:bound=0', 'area:non-open', 'volume:orders-pqp', 'volume:orders-qpp', 'volume:orders-ppq',
                 'volume:orders-distinct', 'area:orders-pq', 'area:orders-qp', 'repind:mixed-orders:swap',
                 'repind:mixed-orders:raise', 'repind:mixed-orders:split', 'repind:mixed-orders:insert',
                 'repind:mixed-orders:reverse', 'volume:non-open', 'repind:non-open', 'form=volume',
                 'form=length', 'length:clipped', 'length:rational', 'length:periodic', 'length:empty', 'form=area', 'area:planar',
                 'area:3d', 'area:dim4-error', 'form=curvature', 'form=torsion', 'form=frenet', 'call=scalar', 'call=array',
                 'call=array1', 'repind:insert', 'repind:raise', 'repind:split', 'repind:reverse', 'repind:swap', 'repind:rigid',
                 'repind:mirror', 'repind:scale', 'analytic:circle', 'analytic:sphere', 'analytic:cylinder', 'analytic:torus',
                 'pardim=1', 'pardim=2', 'pardim=3']
ASSUMPTIONS = [
    'Gauss-Legendre rules enter the theorems as the hypothesis GaussRule / RuleExact (moment equations '
    'sum w_i x_i^k = int_{-1}^{1} t^k, k <= 2m-1); exactness for all polynomials of degree <= 2m-1 is PROVED from it for every m; '
    'existence of exact real nodes is proved for m <= 3 and assumed otherwise; the executable model is run with the float '
    'nodes/weights numpy returns (exact rationals of the floats), which satisfy the moment equations only to rounding '
    '(checked to 1e-14 for m <= 8 by extra_obligations of this module): the exactness theorems speak about the ideal rule',
    'model<->spec theorems assume Basis.Valid and parameters that are exact for the tolerance (Basis.ExactAt / '
    'Basis.Admissible: a knot or at least tol away from every knot, inside the domain; cf. C01_evaluate_snap); no assumption '
    'on knot multiplicities',
    'model<->spec theorems for lengthData / curvatureData / torsionData / areaData / Obj.volume cover NON-RATIONAL objects '
    '(via C03_nonrational_*); rational objects (closed-form derivative path), frenetData, Obj.center of volumes and of '
    'rational/periodic surfaces are tied to the code by the correspondence run only',
    'C16_volume_exact_partial / C16_area_planar_exact_partial assume (hF) that the absolute Jacobian is, on every element, a '
    'tensor-polynomial of the stated degrees (true for non-rational objects with a one-signed Jacobian of degree <= 2p+1; '
    'not derived from Bpoly); C16_curvature_torsion_rotation/scaling_partial assume the rotated/scaled control net (C09)',
    'quadrature-ERROR clauses (insertion/elevation/splitting with non-polynomial integrands, convergence to analytic '
    'values) are covered by the oracle only: element-wise error budgets against a high-order float reference computed with '
    'the real derivative() (property C03), regular parametrisations only (speed/Jacobian bounded away from 0, one sign)',
]
KNOWN_LABELS = ['torsion-scalar-branch-uses-acceleration', 'rational-curve-one-element-list-derivative-squeezed',
                'integrate-periodic-collapse-single-fold']


def extra_obligations(sp, lean_dir):
    """Validation of the hypothesis `GaussRule` / `RuleExact` of the exactness theorems on the nodes
    actually used: numpy's `leggauss(m)` satisfies the moment equations
    sum_i w_i x_i^k = integral_{-1}^{1} t^k dt, k < 2m, to 1e-14 (m = 1..8), is symmetric, and has
    all nodes strictly inside (-1, 1)."""
    out = []
    for m in range(1, 9):
        x, w = np.polynomial.legendre.leggauss(m)
        worst = 0.0
        for k in range(2 * m):
            exact_k = (1.0 - (-1.0) ** (k + 1)) / (k + 1)
            worst = max(worst, abs(float(np.sum(w * x ** k)) - exact_k))
        sym = float(np.max(np.abs(x + x[::-1])) + np.max(np.abs(w - w[::-1])))
        inside = bool(np.all(np.abs(x) < 1.0))
        ok = worst <= 1e-14 and sym <= 1e-15 and inside
        out.append({'name': 'leggauss(%d) satisfies the moment equations k<%d' % (m, 2 * m), 'ok': ok,
                    'detail': 'max moment defect %.3g, asymmetry %.3g, nodes inside (-1,1): %s' % (worst, sym, inside)})
    return out


def _sp():
    from vlib import impl
    return impl.load()[0]


def leggauss(n):
    x, w = np.polynomial.legendre.leggauss(n)
    return x.tolist(), w.tolist()


# ---------------------------------------------------------------------------------------------
# generators

def _interior(rng, a, b):
    return a + (b - a) * rng.choice([0.5, 0.25, 0.75, 0.125, 0.375, 0.625, 0.875])


def _gen_integrate(rng, tier, specs):
    nb = 60 if tier == 'quick' else 700
    for bi in range(nb):
        p = [1, 2, 3, 4, 5, 2, 3][bi % 7] if tier == 'quick' else rng.randint(1, 6)
        r = rng.random()
        if bi % 5 == 1 and p >= 2:
            b = gen.periodic_basis(rng, p, rng.randint(0, p - 2))
        elif bi % 5 == 3 and p >= 3:
            b = gen.periodic_basis(rng, p, rng.randint(0, p - 2), n_interior=rng.choice([0, 0, 1]))   # minimum sizes
        elif r < 0.3 and p >= 2:
            b = gen.open_basis(rng, p, clamped=False)
        else:
            b = gen.open_basis(rng, p, wide=(tier == 'thorough' and rng.random() < 0.15))
        info = gen.basis_info(b)
        a, e = info['start'], info['end']
        ks = [x for x in gen.distinct_knots(b) if a <= x <= e]
        ivs = [(a, e)]
        i, j = sorted(rng.sample(range(len(ks)), 2))
        ivs.append((ks[i], ks[j]))
        s = rng.randrange(len(ks) - 1)
        ivs.append((_interior(rng, ks[s], ks[s + 1]), _interior(rng, ks[s], ks[s + 1])))      # inside one span (either order)
        ivs.append((_interior(rng, ks[0], ks[1]), _interior(rng, ks[-2], ks[-1])))
        ivs.append((_interior(rng, ks[-2], ks[-1]), ks[rng.randrange(len(ks))]))              # often reversed
        t = _interior(rng, a, e)
        ivs.append((t, t))
        T = e - a
        ivs.append((a - 0.5 * T, _interior(rng, a, e)))       # left limit outside
        ivs.append((_interior(rng, a, e), e + 0.25 * T))      # right limit outside
        if rng.random() < 0.4:
            ivs.append((e + 0.25 * T, e + 0.5 * T))           # wholly outside
        for (t0, t1) in ivs:
            specs.append({'form': 'integrate', 'basis': b, 't0': t0, 't1': t1})


def _max_interior_mult(b):
    info = gen.basis_info(b)
    m = 0
    for x in set(b['knots']):
        if info['start'] < x < info['end']:
            m = max(m, sum(1 for y in b['knots'] if y == x))
    if info['k'] >= 0:      # the seam of a periodic basis is an interior point of the closed curve
        m = max(m, info['p'] - 1 - info['k'])
    return m


def _continuous(o):
    """No knot of multiplicity >= order inside any direction (the map is continuous)."""
    return all(_max_interior_mult(b) < b['order'] for b in o['bases'])


def _small_periodic(b):
    """num_functions < periodic+1: several images of one function wrap onto the same index."""
    info = gen.basis_info(b)
    return info['k'] >= 0 and info['n'] < info['k'] + 1


def _refinable(o):
    """Knot insertion into a periodic direction is only used where C04 holds on the pinned tree
    (n >= p + k + 1); smaller periodic directions are left to C04."""
    for b in o['bases']:
        info = gen.basis_info(b)
        if info['k'] >= 0 and info['n'] < info['p'] + info['k'] + 1:
            return False
    return True


def _unclamp_basis(rng, b, side):
    """Spread the end knots of a clamped non-periodic basis (side: 'both', 'left', 'right'): the basis
    functions then stick out of the parametric domain [knots[p-1], knots[-p]], which itself is
    unchanged, as is the number of functions."""
    p, kn = b['order'], list(b['knots'])
    if b['periodic'] >= 0 or p < 2:
        return b
    h = rng.choice([0.25, 0.5, 1.0, 1.5])
    for i in range(p - 1):
        if side in ('both', 'left'):
            kn[i] = kn[p - 1] - (p - 1 - i) * h * rng.choice([0.5, 1.0, 1.0, 2.0])
        if side in ('both', 'right'):
            kn[-1 - i] = kn[-p] + (p - 1 - i) * h * rng.choice([0.5, 1.0, 1.0, 2.0])
    kn[:p] = sorted(kn[:p])
    kn[-p:] = sorted(kn[-p:])
    return {'order': p, 'knots': kn, 'periodic': -1}


def _unclamp(rng, o):
    """Make at least one non-periodic direction of an object spec unclamped or half-clamped."""
    cand = [d for d, b in enumerate(o['bases']) if b['periodic'] < 0 and b['order'] >= 2]
    if not cand:
        return o
    bases = list(o['bases'])
    first = rng.choice(cand)
    for d in cand:
        if d == first or rng.random() < 0.4:
            bases[d] = _unclamp_basis(rng, bases[d], rng.choice(['both', 'left', 'right']))
    return {'bases': bases, 'cps': o['cps'], 'rational': o['rational']}


def _non_open(o):
    """Some non-periodic direction whose end knots have multiplicity < order."""
    for b in o['bases']:
        p, kn = b['order'], b['knots']
        if b['periodic'] < 0 and not (all(x == kn[0] for x in kn[:p]) and all(x == kn[-1] for x in kn[-p:])):
            return True
    return False


def _rand_obj(rng, pardim, continuous=False, **kw):
    kw.setdefault('pmin', 2)
    for _ in range(50):
        o = gen.rand_object(rng, pardim=pardim, **kw)
        if not continuous or _continuous(o):
            return o
    raise AssertionError('no continuous object generated')


def _gen_center(rng, tier, specs):
    n = 48 if tier == 'quick' else 400
    for i in range(n):
        pardim = [1, 2, 3, 1, 2, 2][i % 6]
        o = gen.rand_object(rng, pardim=pardim, pmax=4 if pardim < 3 else 3, max_interior=2 if pardim < 3 else 1,
                            rational=(i % 3 == 0), periodic_prob=0.0 if i % 4 == 1 else 0.3, pmin=2 if i % 2 == 1 else 1)
        if i % 2 == 1:
            o = _unclamp(rng, o)
        specs.append({'form': 'center', 'obj': o})


def _gen_volume(rng, tier, specs):
    n = 12 if tier == 'quick' else 60
    for i in range(n):
        o = _rand_obj(rng, 3, pmax=3 if tier == 'quick' else 4, max_interior=1, rational=(i % 4 == 3),
                      periodic_prob=0.15)
        if i % 3 == 1:
            o = _unclamp(rng, o)
        specs.append({'form': 'volume', 'obj': _well_oriented(rng, o)})


def _well_oriented(rng, o):
    """Add a dominant identity-like map to the random control net so that the Jacobian mostly keeps
    one sign (the objects stay random; the oracle checks the sign before it claims exactness)."""
    bases = o['bases']
    cps = np.array(o['cps'], dtype=float)
    shape = cps.shape[:-1]
    pd = len(bases)
    for idx in np.ndindex(shape):
        w = cps[idx][-1] if o['rational'] else 1.0
        for d in range(min(pd, cps.shape[-1] - (1 if o['rational'] else 0))):
            g = idx[d] / max(1, shape[d] - 1) * 16.0
            cps[idx][d] = (0.25 * cps[idx][d] / w + g) * w
    return {'bases': bases, 'cps': cps.tolist(), 'rational': o['rational']}


def _mixed_object(rng, orders, dim, interior=None):
    """Non-rational, clamped, non-periodic object with the given orders and a control net of full
    polynomial degree in every direction (random interior control points around a dominant
    identity-like map): the Jacobian really has the degree the orders allow."""
    bases = []
    for p in orders:
        ni = interior if interior is not None else (rng.choice([0, 0, 1]) if p >= 4 else rng.choice([0, 1, 1]))
        bases.append(gen.open_basis(rng, p, n_interior=ni, max_mult=1))
    shape = [gen.basis_info(b)['n'] for b in bases]
    o = {'bases': bases, 'cps': gen.rand_cps(rng, shape, dim, False), 'rational': False}
    return _well_oriented(rng, o)


def _order_pattern(o):
    """Arrangement of the orders of a surface/volume spec: pqp, qpp, ppq (p > q), distinct, equal, mixed."""
    ps = [b['order'] for b in o['bases']]
    if len(ps) == 2:
        return 'equal' if ps[0] == ps[1] else ('pq' if ps[0] > ps[1] else 'qp')
    a, b, c = ps
    if a == b == c:
        return 'equal'
    if a == c and a > b:
        return 'pqp'
    if b == c and b > a:
        return 'qpp'
    if a == b and a > c:
        return 'ppq'
    if len({a, b, c}) == 3:
        return 'distinct'
    return 'mixed'


VOL_ORDERS = [(4, 2, 4), (2, 4, 4), (4, 4, 2), (4, 3, 4), (3, 4, 4), (4, 4, 3), (2, 3, 4), (4, 2, 3), (3, 4, 2),
              (5, 2, 5), (5, 3, 5), (2, 5, 5), (5, 5, 3), (5, 4, 5), (3, 2, 3), (2, 3, 3), (3, 3, 2), (3, 5, 4),
              (2, 4, 2), (4, 5, 4)]
SURF_ORDERS = [(4, 2), (2, 4), (5, 3), (3, 5), (5, 2), (2, 5), (4, 3), (3, 4), (5, 4), (4, 5)]


def _gen_mixed_orders(rng, tier, specs):
    """Volumes and planar surfaces with different orders per direction in every arrangement — each
    direction must get the Gauss rule of ITS order — measured directly and under the representation
    changes that permute/raise/split single directions."""
    nv = 8 if tier == 'quick' else len(VOL_ORDERS)
    # the three arrangements with p = 4 > q = 2, 3 and one all-distinct triple always; the rest sampled
    vols = (VOL_ORDERS[:7] + rng.sample(VOL_ORDERS[7:], nv - 7)) if nv < len(VOL_ORDERS) else list(VOL_ORDERS)
    for k, orders in enumerate(vols):
        o = _mixed_object(rng, orders, 3, interior=0 if (tier == 'quick' and max(orders) >= 5) else None)
        specs.append({'form': 'volume', 'obj': o})
        # every pair swapped, one direction raised / refined / split / reversed
        reps = [('swap', 0, 1), ('swap', 1, 2), ('swap', 0, 2)] + [('raise', d, None) for d in range(3)] + \
               [('split', d, None) for d in range(3)] + [('insert', d, None) for d in range(3)] + [('reverse', d, None) for d in range(3)]
        if tier == 'quick':
            reps = [reps[(k + j) % 3 + 3 * j] for j in range(5)]      # one of each kind, directions rotating with k
        for op, d, d2 in reps:
            info = gen.basis_info(o['bases'][d])
            a, e = info['start'], info['end']
            r = {'form': 'repind', 'op': op, 'obj': o, 'dir': d}
            if op == 'swap':
                r['dir2'] = d2
            elif op == 'raise':
                if o['bases'][d]['order'] >= 5:
                    continue          # stay within orders <= 5, where order+1 points are exact for the Jacobian
                r['amount'] = 1
            elif op in ('split', 'insert'):
                r['knots'] = [_interior(rng, a, e)]
            specs.append(r)
    ns = 6 if tier == 'quick' else len(SURF_ORDERS)
    for k, orders in enumerate(SURF_ORDERS[:ns]):
        o = _mixed_object(rng, orders, 2)
        specs.append({'form': 'area', 'obj': o})
        for op, d in [('swap', 0), ('raise', k % 2), ('split', (k + 1) % 2), ('reverse', k % 2), ('insert', (k + 1) % 2)]:
            info = gen.basis_info(o['bases'][d])
            r = {'form': 'repind', 'op': op, 'obj': o, 'dir': d}
            if op == 'swap':
                r['dir2'] = 1
            elif op == 'raise':
                if o['bases'][d]['order'] >= 5:
                    continue
                r['amount'] = 1
            elif op in ('split', 'insert'):
                r['knots'] = [_interior(rng, info['start'], info['end'])]
            specs.append(r)


def _gen_length(rng, tier, specs):
    n = 40 if tier == 'quick' else 300
    for i in range(n):
        dim = [2, 3, 3, 2, 4][i % 5]
        o = _rand_obj(rng, 1, dim=dim, pmax=5, max_interior=3, rational=(i % 3 == 1), periodic_prob=0.3)
        if i % 4 == 2:
            o = _unclamp(rng, o)
        info = gen.basis_info(o['bases'][0])
        a, e = info['start'], info['end']
        ks = [x for x in gen.distinct_knots(o['bases'][0]) if a <= x <= e]
        specs.append({'form': 'length', 'obj': o, 't0': None, 't1': None})
        r = i % 6
        if i % 3 == 0:
            # a bound exactly equal to the parameter value 0 strictly inside the domain (0 is falsy in Python)
            c = rng.choice(ks[1:-1]) if len(ks) > 2 and rng.random() < 0.5 else _interior(rng, ks[0], ks[-1])
            b0 = o['bases'][0]
            oz = {'bases': [{'order': b0['order'], 'knots': [x - c for x in b0['knots']], 'periodic': b0['periodic']}],
                  'cps': o['cps'], 'rational': o['rational']}
            t0z, t1z = [(0.0, None), (None, 0.0), (0.0, ks[-1] - c), (ks[0] - c, 0.0)][(i // 3) % 4]
            specs.append({'form': 'length', 'obj': oz, 't0': t0z, 't1': t1z})
        if r == 0:
            specs.append({'form': 'length', 'obj': o, 't0': _interior(rng, ks[0], ks[1]), 't1': _interior(rng, ks[-2], ks[-1])})
        elif r == 1:
            specs.append({'form': 'length', 'obj': o, 't0': rng.choice(ks[:-1]), 't1': None})
        elif r == 2:
            specs.append({'form': 'length', 'obj': o, 't0': None, 't1': rng.choice(ks[1:])})
        elif r == 3:
            t0 = _interior(rng, ks[0], ks[1])
            specs.append({'form': 'length', 'obj': o, 't0': t0, 't1': _interior(rng, t0, ks[1])})
        elif r == 4:
            specs.append({'form': 'length', 'obj': o, 't0': _interior(rng, ks[-2], ks[-1]), 't1': _interior(rng, ks[0], ks[1])})  # t0 > t1
        else:
            if info['k'] < 0:
                specs.append({'form': 'length', 'obj': o, 't0': a - 0.5, 't1': None})     # outside: ValueError
            else:
                specs.append({'form': 'length', 'obj': o, 't0': ks[0], 't1': ks[-1]})


def _gen_area(rng, tier, specs):
    n = 24 if tier == 'quick' else 150
    for i in range(n):
        dim = [2, 3, 3, 2, 3, 2, 3, 4][i % 8]
        o = _rand_obj(rng, 2, dim=dim, pmax=4 if tier == 'thorough' else 3, max_interior=2, rational=(i % 3 == 2),
                      periodic_prob=0.25)
        if i % 4 == 1:
            o = _unclamp(rng, o)
        specs.append({'form': 'area', 'obj': _well_oriented(rng, o) if dim == 2 else o})


def _curve_points(rng, o, n):
    b = o['bases'][0]
    info = gen.basis_info(b)
    a, e = info['start'], info['end']
    ks = [x for x in gen.distinct_knots(b) if a <= x <= e]
    pts = []
    for x, y in zip(ks[:-1], ks[1:]):
        pts.append(_interior(rng, x, y))
    pts += ks[:-1]
    rng.shuffle(pts)
    return pts[:n]


def _gen_frenet(rng, tier, specs):
    n = 30 if tier == 'quick' else 300
    for i in range(n):
        dim = [3, 3, 2, 3][i % 4]
        pmin = 3 if i % 2 == 0 else 2
        o = _rand_obj(rng, 1, continuous=True, dim=dim, pmin=pmin, pmax=5, max_interior=2, rational=(i % 3 == 0),
                      periodic_prob=0.2)
        if i % 7 == 6:
            o = _rand_obj(rng, 1, dim=4, pmax=3, max_interior=1)     # dimension 4: errors
        for call in ('scalar', 'array', 'array1'):
            ts = _curve_points(rng, o, 1 if call == 'array1' else 3)
            above = True
            specs.append({'form': 'curvature', 'obj': o, 'ts': ts, 'call': call, 'above': above})
            specs.append({'form': 'torsion', 'obj': o, 'ts': ts, 'call': call, 'above': above})
            if i % 2 == 0:
                specs.append({'form': 'frenet', 'obj': o, 'ts': ts, 'call': call, 'above': above, 'which': 'binormal'})
                specs.append({'form': 'frenet', 'obj': o, 'ts': ts, 'call': call, 'above': above, 'which': 'normal'})
        # from below at an interior knot / interior point
        ts = [t for t in _curve_points(rng, o, 4) if t > gen.basis_info(o['bases'][0])['start']][:2]
        if ts:
            specs.append({'form': 'curvature', 'obj': o, 'ts': ts, 'call': 'array', 'above': False})
            specs.append({'form': 'torsion', 'obj': o, 'ts': ts, 'call': 'array', 'above': False})
    # a straight line and a curve along e_z: the vanishing-acceleration replacement of `binormal`
    for cps in ([[0, 0, 0], [1, 2, 0.5]], [[0, 0, 0], [0, 0, 2]], [[0, 0, 0], [1, 1, 1], [2, 2, 2]]):
        p = len(cps)
        o = {'bases': [{'order': p, 'knots': [0.0] * p + [1.0] * p, 'periodic': -1}], 'cps': cps, 'rational': False}
        for call in ('scalar', 'array'):
            for which in ('binormal', 'normal'):
                specs.append({'form': 'frenet', 'obj': o, 'ts': [0.25, 0.5], 'call': call, 'above': True, 'which': which})
    # the twisted cubic (t, t^2, t^3) as a Bezier curve
    tw = {'bases': [{'order': 4, 'knots': [0.0] * 4 + [1.0] * 4, 'periodic': -1}],
          'cps': [[0, 0, 0], [1 / 3, 0, 0], [2 / 3, 1 / 3, 0], [1, 1, 1]], 'rational': False}
    for call in ('scalar', 'array'):
        specs.append({'form': 'torsion', 'obj': tw, 'ts': [0.25, 0.5, 0.75], 'call': call, 'above': True, 'twisted': True})
        specs.append({'form': 'curvature', 'obj': tw, 'ts': [0.25, 0.5, 0.75], 'call': call, 'above': True, 'twisted': True})


REP_OPS = ['insert', 'raise', 'split', 'reverse', 'swap', 'rigid', 'mirror', 'scale']


def _gen_repind(rng, tier, specs):
    n = 96 if tier == 'quick' else 500
    for i in range(n):
        op = REP_OPS[i % len(REP_OPS)]
        pardim = [1, 2, 1, 3, 2, 1][(i // len(REP_OPS)) % 6]
        if op == 'swap' and pardim == 1:
            pardim = 2
        periodic_ok = op in ('insert', 'rigid', 'mirror', 'scale')
        dim = 3 if (op == 'mirror' or pardim == 3) else rng.choice([2, 3])
        o = _rand_obj(rng, pardim, continuous=(op == 'raise'), dim=dim, pmax=4 if pardim < 3 else 3,
                      max_interior=2 if pardim < 3 else 1, rational=(rng.random() < 0.35),
                      periodic_prob=0.25 if periodic_ok else 0.0)
        if (i // len(REP_OPS)) % 3 == 1 and op != 'raise':
            o = _unclamp(rng, o)
        if pardim == 3 or (pardim == 2 and dim == 2):
            o = _well_oriented(rng, o)
        d = rng.randrange(pardim)
        info = gen.basis_info(o['bases'][d])
        a, e = info['start'], info['end']
        s = {'form': 'repind', 'op': op, 'obj': o, 'dir': d}
        if op == 'insert':
            s['knots'] = sorted(_interior(rng, a, e) for _ in range(rng.randint(1, 2)))
            if not _refinable(o):
                continue     # periodic insertion below the minimum size: C04
        elif op == 'raise':
            s['amount'] = rng.randint(1, 2)
        elif op == 'split':
            ks = [x for x in gen.distinct_knots(o['bases'][d]) if a < x < e]
            s['knots'] = [rng.choice(ks)] if ks and rng.random() < 0.5 else [_interior(rng, a, e)]
        elif op == 'swap':
            s['dir2'] = (d + 1) % pardim
        elif op == 'rigid':
            s['theta'] = rng.choice([0.3, -1.1, 2.5, pi / 2, 4.0])
            s['axis'] = [gen.dyadic(rng, -2, 2), gen.dyadic(rng, -2, 2), rng.choice([0.5, 1.0, -1.5])] if dim == 3 else [0, 0, 1]
            s['shift'] = [gen.dyadic(rng, -5, 5) for _ in range(dim)]
        elif op == 'mirror':
            s['normal'] = [gen.dyadic(rng, -2, 2), rng.choice([1.0, -0.5, 2.0]), gen.dyadic(rng, -2, 2)]
        elif op == 'scale':
            s['factor'] = rng.choice([2.0, 0.5, 3.0, -1.5, 0.25, -2.0])
        specs.append(s)


ANALYTIC = [
    ('circle', {'r': 2.0, 'type': 'p2C0'}), ('circle', {'r': 0.75, 'type': 'p4C1'}), ('arc', {'r': 2.0, 'theta': 1.3}),
    ('arc', {'r': 1.5, 'theta': 4.0}), ('disc', {'r': 1.5, 'type': 'radial'}), ('disc', {'r': 1.25, 'type': 'square'}),
    ('sphere', {'r': 1.5}), ('cylinder', {'r': 1.5, 'h': 2.0}), ('torus', {'r': 1.0, 'R': 3.0}),
    ('cylinder_vol', {'r': 1.5, 'h': 2.0}), ('sphere_vol', {'r': 1.5}), ('torus_vol', {'r': 1.0, 'R': 3.0}),
]


def _gen_analytic(rng, tier, specs):
    for shape, prm in ANALYTIC:
        prm = dict(prm)
        if tier == 'thorough' or rng.random() < 0.5:
            prm['center'] = [gen.dyadic(rng, -3, 3) for _ in range(3)]
        specs.append({'form': 'analytic', 'shape': shape, 'prm': prm})


def _gen_sentinels(specs):
    """Hand-built minimal cases first (one per finding class seen on the pinned tree; after a fix
    they stay as regression sentinels): the twisted cubic with scalar torsion input, a rational
    cubic with a one-element list, the smallest periodic basis whose images wrap twice."""
    tw = {'bases': [{'order': 4, 'knots': [0.0] * 4 + [1.0] * 4, 'periodic': -1}],
          'cps': [[0, 0, 0], [1 / 3, 0, 0], [2 / 3, 1 / 3, 0], [1, 1, 1]], 'rational': False}
    cr = {'bases': [{'order': 4, 'knots': [0.0] * 4 + [1.0] * 4, 'periodic': -1}],
          'cps': [[0, 0, 0, 1], [1, 0, 0, 2], [1, 1, 0, 1], [1, 1, 1, 1]], 'rational': True}
    specs.append({'form': 'torsion', 'obj': tw, 'ts': [0.5], 'call': 'scalar', 'above': True, 'twisted': True})
    specs.append({'form': 'torsion', 'obj': cr, 'ts': [0.25], 'call': 'array1', 'above': True})
    specs.append({'form': 'frenet', 'obj': cr, 'ts': [0.25], 'call': 'array1', 'above': True, 'which': 'binormal'})
    specs.append({'form': 'integrate', 'basis': {'order': 3, 'knots': [-2.0, -1.0, 0.0, 1.0, 2.0, 3.0], 'periodic': 1},
                  't0': 0.0, 't1': 1.0})


def generate(rng, tier):
    specs = []
    _gen_sentinels(specs)
    _gen_integrate(rng, tier, specs)
    _gen_center(rng, tier, specs)
    _gen_volume(rng, tier, specs)
    _gen_length(rng, tier, specs)
    _gen_area(rng, tier, specs)
    _gen_mixed_orders(rng, tier, specs)
    _gen_frenet(rng, tier, specs)
    _gen_repind(rng, tier, specs)
    _gen_analytic(rng, tier, specs)
    return specs


# ---------------------------------------------------------------------------------------------
# analytic primitives (real factories)

def _analytic_obj(sp, s):
    from splipy import curve_factory as cf, surface_factory as sf, volume_factory as vf
    sh, p = s['shape'], s['prm']
    c = tuple(p.get('center', (0, 0, 0)))
    if sh == 'circle':
        return cf.circle(p['r'], center=c, type=p['type'])
    if sh == 'arc':
        o = cf.circle_segment(p['theta'], p['r'])
        return o.translate(c) if any(c) else o
    if sh == 'disc':
        return sf.disc(p['r'], center=c, type=p['type'])
    if sh == 'sphere':
        return sf.sphere(p['r'], center=c)
    if sh == 'cylinder':
        return sf.cylinder(p['r'], p['h'], center=c)
    if sh == 'torus':
        return sf.torus(p['r'], p['R'], center=c)
    if sh == 'cylinder_vol':
        return vf.cylinder(p['r'], p['h'], center=c)
    if sh == 'sphere_vol':
        return vf.sphere(p['r'], center=c)
    if sh == 'torus_vol':
        return vf.torus(p['r'], p['R'], center=c)
    raise AssertionError(sh)


def _analytic_value(s):
    sh, p = s['shape'], s['prm']
    r = p['r']
    return {'circle': lambda: 2 * pi * r, 'arc': lambda: abs(p['theta']) * r, 'disc': lambda: pi * r * r,
            'sphere': lambda: 4 * pi * r * r, 'cylinder': lambda: 2 * pi * r * p['h'],
            'torus': lambda: 4 * pi * pi * r * p['R'], 'cylinder_vol': lambda: pi * r * r * p['h'],
            'sphere_vol': lambda: 4.0 / 3 * pi * r ** 3, 'torus_vol': lambda: 2 * pi * pi * r * r * p['R']}[sh]()


def _measure_name(o):
    return {1: 'length', 2: 'area', 3: 'volume'}[o.pardim]


# ---------------------------------------------------------------------------------------------
# protocol lines

def _opt(x):
    return Word('none') if x is None else x


def _rules(o):
    out = []
    for b in o['bases']:
        x, w = leggauss(b['order'] + 1)
        out += [x, w]
    return out


def _obj_line(o):
    """The cheap/most specific model op for an object spec: the measure of its parametric dimension."""
    pd = len(o['bases'])
    if pd == 1:
        return line('curve_length', gen.enc_object(o), gen.TOL, *_rules(o), Word('none'), Word('none'))
    if pd == 2:
        return line('surf_area', gen.enc_object(o), gen.TOL, *_rules(o))
    return line('obj_center', gen.enc_object(o), gen.TOL)


def model_line(s):
    f = s['form']
    if f == 'integrate':
        return line('basis_integrate', gen.enc_basis(s['basis']), gen.TOL, s['t0'], s['t1'])
    if f == 'center':
        return line('obj_center', gen.enc_object(s['obj']), gen.TOL)
    if f == 'volume':
        return line('vol_volume', gen.enc_object(s['obj']), gen.TOL, *_rules(s['obj']))
    if f == 'length':
        return line('curve_length', gen.enc_object(s['obj']), gen.TOL, *_rules(s['obj']), _opt(s['t0']), _opt(s['t1']))
    if f == 'area':
        return line('surf_area', gen.enc_object(s['obj']), gen.TOL, *_rules(s['obj']))
    if f == 'curvature':
        return line('curve_curvature', gen.enc_object(s['obj']), gen.TOL, s['ts'], s['above'])
    if f == 'torsion':
        return line('curve_torsion', gen.enc_object(s['obj']), gen.TOL, s['ts'], s['above'])
    if f == 'frenet':
        return line('curve_frenet', gen.enc_object(s['obj']), gen.TOL, ALLCLOSE_ATOL, s['ts'], s['above'], s['which'] == 'normal')
    if f == 'repind':
        return line('obj_center', gen.enc_object(s['obj']), gen.TOL)
    if f == 'analytic':
        o = gen.spec_of_object(_analytic_obj(_sp(), s))
        if s['shape'] in ('circle', 'arc', 'cylinder', 'disc'):
            return _obj_line(o)
        return line('obj_center', gen.enc_object(o), gen.TOL)
    raise AssertionError(f)


# ---------------------------------------------------------------------------------------------
# implementation side

def _span_nodes(knots, n):
    x, w = np.polynomial.legendre.leggauss(n)
    knots = np.asarray(knots, dtype=float)
    t = np.array([(x + 1) / 2 * (b - a) + a for a, b in zip(knots[:-1], knots[1:])]).flatten()
    ww = np.array([w / 2 * (b - a) for a, b in zip(knots[:-1], knots[1:])]).flatten()
    return t, ww


def _impl_length(o, t0, t1):
    val = o.length(t0, t1) if (t0 is not None or t1 is not None) else o.length()
    if t0 is None and t1 is None:
        t, _ = _span_nodes(o.knots(0), o.order(0) + 1)
        dx = o.derivative(t)
        return [float(val), np.sum(dx ** 2, axis=1).tolist()]
    return [float(val), None]


def _impl_area(o):
    val = o.area()
    u, _ = _span_nodes(o.knots(0), o.order(0) + 1)
    v, _ = _span_nodes(o.knots(1), o.order(1) + 1)
    du = o.derivative(u, v, d=(1, 0))
    dv = o.derivative(u, v, d=(0, 1))
    J = np.cross(du, dv)
    J = np.sum(J ** 2, axis=2) if o.dimension == 3 else np.abs(J)
    return [float(val), J.reshape(-1).tolist()]


def _call_forms(fn, s):
    with np.errstate(all='ignore'):
        if s['call'] == 'scalar':
            return [to_plain(fn(t, above=s['above'])) for t in s['ts']]
        return to_plain(fn(list(s['ts']), above=s['above']))


def _apply_op(sp, o, s):
    """The representation change / motion of a repind spec on a clone.  Returns a list of objects
    (several for split)."""
    c = o.clone()
    op = s['op']
    d = s['dir']
    if op == 'insert':
        c.insert_knot(list(s['knots']), d)
    elif op == 'raise':
        c.raise_order(s['amount'], direction=d)
    elif op == 'split':
        r = c.split(list(s['knots']), d)
        return list(r) if isinstance(r, (list, tuple)) else [r]
    elif op == 'reverse':
        c.reverse(d)
    elif op == 'swap':
        if c.pardim == 2:
            c.swap()
        else:
            c.swap(d, s['dir2'])
    elif op == 'rigid':
        if c.dimension == 3:
            c.rotate(s['theta'], s['axis'])
        else:
            c.rotate(s['theta'])
        c.translate(s['shift'])
    elif op == 'mirror':
        c.mirror(s['normal'])
    elif op == 'scale':
        c.scale(s['factor'])
    return [c]


def run_impl(sp, s):
    f = s['form']
    if f == 'integrate':
        return [float(x) for x in gen.mk_basis(sp, s['basis']).integrate(s['t0'], s['t1'])]
    if f in ('center', 'repind'):
        return gen.mk_object(sp, s['obj']).center().tolist()
    if f == 'volume':
        return float(gen.mk_object(sp, s['obj']).volume())
    if f == 'length':
        return _impl_length(gen.mk_object(sp, s['obj']), s['t0'], s['t1'])
    if f == 'area':
        return _impl_area(gen.mk_object(sp, s['obj']))
    if f == 'curvature':
        return _call_forms(gen.mk_object(sp, s['obj']).curvature, s)
    if f == 'torsion':
        return _call_forms(gen.mk_object(sp, s['obj']).torsion, s)
    if f == 'frenet':
        return _call_forms(getattr(gen.mk_object(sp, s['obj']), s['which']), s)
    if f == 'analytic':
        o = _analytic_obj(sp, s)
        if s['shape'] in ('circle', 'arc'):
            return _impl_length(o, None, None)
        if s['shape'] in ('cylinder', 'disc'):
            return _impl_area(o)
        return o.center().tolist()
    raise AssertionError(f)


# ---------------------------------------------------------------------------------------------
# comparison (the square roots and quotients the model leaves to the harness)

def _fl(x):
    return float(x)


def _close(a, b, scale=None):
    a = np.asarray(a, dtype=float)
    b = np.asarray(b, dtype=float)
    if a.shape != b.shape:
        return 'shape %s vs %s' % (a.shape, b.shape)
    if not np.all(np.isfinite(a)):
        return 'non-finite implementation value %r' % a.reshape(-1)[:4].tolist()
    sc = max(1.0, float(np.max(np.abs(b))) if b.size else 1.0) if scale is None else scale
    err = float(np.max(np.abs(a - b))) if a.size else 0.0
    if err <= ATOL + RTOL * sc:
        return None
    return 'impl %r vs model %r (|diff| %.3g)' % (a.reshape(-1)[:4].tolist(), b.reshape(-1)[:4].tolist(), err)


def _cmp_length(iv, mv):
    w = np.array([_fl(x) for x in mv[0]])
    sq = np.array([_fl(x) for x in mv[1]])
    total = float(np.dot(np.sqrt(sq), w)) if w.size else 0.0
    d = _close(iv[0], total)
    if d:
        return 'length: ' + d
    if iv[1] is not None:
        d = _close(iv[1], sq)
        if d:
            return 'squared speeds: ' + d
    return None


def _cmp_area(iv, mv):
    w1 = np.array([_fl(x) for x in mv[0]])
    w2 = np.array([_fl(x) for x in mv[1]])
    J = np.array([_fl(x) for x in mv[2]]).reshape(len(w1), len(w2))
    planar = not (isinstance(mv[3], str) and mv[3] == 'none')
    total = _fl(mv[3]) if planar else float(w1.dot(np.sqrt(J)).dot(w2))
    d = _close(iv[0], total)
    if d:
        return 'area: ' + d
    d = _close(iv[1], J.reshape(-1))
    return ('area elements: ' + d) if d else None


def _degenerate(mv, s):
    """Model denominators that vanish: the quotient is 0/0 or x/0 in both code and model."""
    f = s['form']
    if f == 'curvature':
        return any(p[1] == 0 for p in mv)
    if f == 'torsion':
        return mv != 'planar' and any(p[1] == 0 for p in mv)
    if f == 'frenet':
        return any(all(x == 0 for x in p[1]) or all(x == 0 for x in p[0]) for p in mv)
    return False


def _model_values(mv, s):
    f = s['form']
    if f == 'curvature':
        return [math.sqrt(_fl(a)) / math.sqrt(_fl(b)) ** 3 for a, b in mv]
    if f == 'torsion':
        if mv == 'planar':
            return None
        return [_fl(a) / _fl(b) for a, b in mv]
    if f == 'frenet':
        out = []
        for v, w in mv:
            v = np.array([_fl(x) for x in v])
            w = np.array([_fl(x) for x in w])
            B = w / np.linalg.norm(w)
            out.append(B.tolist() if s['which'] == 'binormal' else np.cross(B, v / np.linalg.norm(v)).tolist())
        return out
    raise AssertionError(f)


def compare(s, iv, mv):
    if isinstance(iv, Err) or is_err(mv):
        return diff(iv, mv, RTOL, ATOL)
    f = s['form']
    if f in ('integrate', 'center', 'repind', 'volume'):
        return diff(iv, mv, RTOL, ATOL)
    if f == 'length':
        return _cmp_length(iv, mv)
    if f == 'area':
        return _cmp_area(iv, mv)
    if f == 'analytic':
        if s['shape'] in ('circle', 'arc'):
            return _cmp_length(iv, mv)
        if s['shape'] in ('cylinder', 'disc'):
            return _cmp_area(iv, mv)
        return diff(iv, mv, RTOL, 1e-9)
    if f in ('curvature', 'torsion', 'frenet'):
        if _degenerate(mv, s) or _ill_conditioned(s):
            return None
        want = _model_values(mv, s)
        if want is None:       # planar torsion: zeros (scalar input gives a one-element array)
            if s['call'] == 'scalar':
                return None if all(np.asarray(x).shape == (1,) and float(np.asarray(x)[0]) == 0.0 for x in iv) else 'planar torsion: %r' % (iv,)
            return _close(iv, [0.0] * len(s['ts']))
        return _close(iv, want)
    raise AssertionError(f)


# ---------------------------------------------------------------------------------------------
# exact tools for the oracle (definitions only)

def _padd(a, b):
    n = max(len(a), len(b))
    return [(a[i] if i < len(a) else F(0)) + (b[i] if i < len(b) else F(0)) for i in range(n)]


def _pmul_lin(a, c0, c1):
    """a(t) * (c0 + c1 t)"""
    out = [F(0)] * (len(a) + 1)
    for i, x in enumerate(a):
        out[i] += x * c0
        out[i + 1] += x * c1
    return out


def piece_poly(tau, q, i, mu):
    """Coefficients (low to high) of the polynomial piece of the Cox-de Boor function B_{i,q} on the
    knot span [tau[mu], tau[mu+1]) — the recursion carried out on polynomials, 0/0 := 0."""
    if q == 0:
        return [F(1)] if i == mu else [F(0)]
    r = [F(0)]
    d1 = tau[i + q] - tau[i]
    if d1 != 0:
        r = _padd(r, _pmul_lin(piece_poly(tau, q - 1, i, mu), -tau[i] / d1, F(1) / d1))
    d2 = tau[i + q + 1] - tau[i + 1]
    if d2 != 0:
        r = _padd(r, _pmul_lin(piece_poly(tau, q - 1, i + 1, mu), tau[i + q + 1] / d2, F(-1) / d2))
    return r


def _pint(c, a, b):
    return sum(ck * (b ** (k + 1) - a ** (k + 1)) / (k + 1) for k, ck in enumerate(c))


def exact_basis_integrals(b, t0, t1):
    """Exact integrals over [t0,t1] (inside the domain, t0 <= t1) of the functions of a basis spec,
    periodic images summed."""
    p, k = b['order'], b['periodic']
    tau = exact.frs(b['knots'])
    n_all = len(tau) - p
    n = n_all - (k + 1)
    t0, t1 = exact.fr(t0), exact.fr(t1)
    out = [F(0)] * n
    for mu in range(p - 1, n_all):
        a, e = max(tau[mu], t0), min(tau[mu + 1], t1)
        if tau[mu] >= tau[mu + 1] or a >= e:
            continue
        for i in range(max(0, mu - p + 1), min(mu, n_all - 1) + 1):
            out[i % n] += _pint(piece_poly(tau, p - 1, i, mu), a, e)
    return out


def exact_center(o):
    bases, fc = exact.obj_arrays(o)
    ws = []
    size = F(1)
    for b in bases:
        info = gen.basis_info(b)
        ws.append(exact_basis_integrals(b, info['start'], info['end']))
        size *= exact.fr(info['end']) - exact.fr(info['start'])
    ncomp = fc.shape[-1]
    acc = [F(0)] * ncomp
    for idx in itertools.product(*[range(len(w)) for w in ws]):
        wt = F(1)
        for w, i in zip(ws, idx):
            wt *= w[i]
        for c in range(ncomp):
            acc[c] += wt * fc[idx + (c,)]
    acc = [x / size for x in acc]
    if o['rational']:
        return [x / acc[-1] for x in acc[:-1]]
    return acc


def exact_curve_jets(o, t, above, upto=3):
    """Exact derivatives x, x', x'', x''' of a (rational) curve at t: defining sums + Leibniz rule."""
    hs = [exact.eval_point(o, [t], [d], [above]) for d in range(upto + 1)]
    if not o['rational']:
        return hs
    dim = len(hs[0]) - 1
    W = [h[-1] for h in hs]
    xs = []
    for k in range(upto + 1):
        xk = []
        for c in range(dim):
            acc = hs[k][c]
            for j in range(k):
                acc -= math.comb(k, j) * xs[j][c] * W[k - j]
            xk.append(acc / W[0])
        xs.append(xk)
    return xs


_JETS = {}


def _jets(s):
    """Exact jets (position and the first three derivatives) at every parameter of a
    curvature/torsion/frenet spec (cached per spec object)."""
    key = id(s)
    hit = _JETS.get(key)
    if hit is not None and hit[0] is s:
        return hit[1]
    j = [exact_curve_jets(s['obj'], t, s['above']) for t in s['ts']]
    if len(_JETS) > 20000:
        _JETS.clear()
    _JETS[key] = (s, j)
    return j


def _ill_conditioned(s):
    """True when the quotients are numerically ill-conditioned at some parameter (nearly vanishing
    speed, or velocity nearly parallel to the acceleration for torsion/Frenet): float rounding of the
    implementation is then not covered by the 1e-9 tolerances, so nothing is compared there."""
    o = s['obj']
    if _dim(o) not in (2, 3):
        return False
    cps = np.array(o['cps'], dtype=float)
    info = gen.basis_info(o['bases'][0])
    S2 = (float(np.max(np.abs(cps))) / max(info['end'] - info['start'], 1e-300)) ** 2
    for (_, v, a, _) in _jets(s):
        v3 = [float(c) for c in v] + [0.0] * (3 - len(v))
        a3 = [float(c) for c in a] + [0.0] * (3 - len(a))
        vv, aa = _dot(v3, v3), _dot(a3, a3)
        if vv < 1e-6 * S2:
            return True
        if s['form'] in ('torsion', 'frenet') and aa > 0:
            w = _cross(v3, a3)
            if 0 < _dot(w, w) < 1e-6 * vv * aa:
                return True
    return False


def _cross(a, b):
    return [a[1] * b[2] - a[2] * b[1], a[2] * b[0] - a[0] * b[2], a[0] * b[1] - a[1] * b[0]]


def _dot(a, b):
    return sum(x * y for x, y in zip(a, b))


# ---------------------------------------------------------------------------------------------
# float reference quadrature on the real object (high order, element by element)

def _density(o, grids):
    if o.pardim == 1:
        dx = o.derivative(grids[0])
        return np.sqrt(np.sum(dx ** 2, axis=-1))
    if o.pardim == 2:
        du = o.derivative(*grids, d=(1, 0))
        dv = o.derivative(*grids, d=(0, 1))
        J = np.cross(du, dv)
        return np.sqrt(np.sum(J ** 2, axis=-1)) if o.dimension == 3 else J     # signed in the plane
    du = o.derivative(*grids, d=(1, 0, 0))
    dv = o.derivative(*grids, d=(0, 1, 0))
    dw = o.derivative(*grids, d=(0, 0, 1))
    return np.einsum('...i,...i', du, np.cross(dv, dw))                          # signed


def _element_sums(o, nodes, sub=1, absolute=True):
    """Composite Gauss rule with `nodes[d]` points on every knot span (split in `sub` equal parts) of
    direction d.  Returns (array of per-element values, min density, max |density|, sign changes?)."""
    grids, weights, nel = [], [], []
    for d in range(o.pardim):
        ks = np.asarray(o.knots(d), dtype=float)
        if sub > 1:
            ks = np.concatenate([np.linspace(a, b, sub + 1)[:-1] for a, b in zip(ks[:-1], ks[1:])] + [ks[-1:]])
        t, w = _span_nodes(ks, nodes[d])
        grids.append(t)
        weights.append(w)
        nel.append((len(ks) - 1) // sub)
    dens = _density(o, grids)
    signed = dens
    if absolute:
        dens = np.abs(dens)
    val = dens
    for d in range(o.pardim):
        shape = [1] * o.pardim
        shape[d] = -1
        val = val * weights[d].reshape(shape)
    # fold nodes into elements
    shp = []
    for d in range(o.pardim):
        shp += [nel[d], sub * nodes[d]]
    val = val.reshape(shp).sum(axis=tuple(range(1, 2 * o.pardim, 2)))
    return val, float(np.min(signed)), float(np.max(signed)), float(np.min(np.abs(signed)))


def reference(o):
    """(ref value, budget of the code's rule, regular?, polynomial-exact?) for the measure of o."""
    with np.errstate(all='ignore'):
        code, _, _, _ = _element_sums(o, [p + 1 for p in o.order()], 1)
        n_hi = [max(2 * p + 4, 14) for p in o.order()]
        ref, lo, hi, amin = _element_sums(o, n_hi, 2)
        ref2, _, _, _ = _element_sums(o, [n + 5 for n in n_hi], 2)
    R = float(ref2.sum())
    if not np.isfinite(R) or R <= 0:
        return None
    conv = abs(float(ref.sum()) - R) <= 1e-11 * R
    one_sign = (lo > 0 or hi < 0) if o.pardim >= 2 and not (o.pardim == 2 and o.dimension == 3) else True
    regular = conv and one_sign and amin >= 1e-3 * max(abs(lo), abs(hi))
    budget = float(np.sum(np.abs(code - ref2)))
    if o.rational:
        poly = False
    elif o.pardim == 1:
        poly = all(p == 2 for p in o.order())
    elif o.pardim == 2:
        poly = o.dimension == 2
    else:
        poly = all(p <= 5 for p in o.order())
    return {'ref': R, 'budget': budget, 'regular': regular, 'poly': poly and one_sign, 'code': float(code.sum())}


def _measure(o):
    return float(getattr(o, _measure_name(o))())


# ---------------------------------------------------------------------------------------------
# oracle

def _oracle_integrate(sp, s):
    b = gen.mk_basis(sp, s['basis'])
    info = gen.basis_info(s['basis'])
    t0, t1 = s['t0'], s['t1']
    inside = info['start'] <= t0 <= t1 <= info['end']
    if not inside:
        return []      # the property speaks about sub-intervals [t0,t1] of the domain
    try:
        got = b.integrate(t0, t1)
    except Exception as e:   # noqa: BLE001
        return ['integrate(%r,%r) on a sub-interval of the domain raised %s: %s' % (t0, t1, type(e).__name__, e)]
    want = exact_basis_integrals(s['basis'], t0, t1)
    if len(got) != len(want):
        return ['integrate returned %d values for %d basis functions' % (len(got), len(want))]
    fails = []
    if not exact.close(got, want, RTOL, 1e-12):
        fails.append('basis integrals differ from the exact integrals of the polynomial pieces: got %r want %r' % (
            [float(x) for x in got], [float(x) for x in want]))
    if abs(sum(float(x) for x in got) - (t1 - t0)) > 1e-9 * max(1.0, abs(t1 - t0)):
        fails.append('basis integrals sum to %r, not to t1-t0 = %r' % (sum(float(x) for x in got), t1 - t0))
    return fails


def _oracle_center(sp, s):
    o = gen.mk_object(sp, s['obj'])
    got = o.center()
    want = exact_center(s['obj'])
    fails = []
    if not exact.close(got, want, RTOL, 1e-10):
        fails.append('center %r differs from the exact (projective) integral mean %r' % (got.tolist(), [float(x) for x in want]))
    # translation covariance: center(obj + v) = center(obj) + v  (the weights add up to the parametric size)
    v = np.array([10.0, -20.0, 5.0, 2.5][:o.dimension])
    moved = o.clone().translate(v).center()
    if np.max(np.abs(moved - (got + v))) > 1e-9 * max(1.0, float(np.max(np.abs(got + v)))):
        fails.append('center is not translation covariant: center(obj+v) = %r, center(obj)+v = %r' % (moved.tolist(), (got + v).tolist()))
    # the weights themselves: per direction, the integrals over the domain add up to its length
    for d, b in enumerate(o.bases):
        w = b.integrate(b.start(), b.end())
        if abs(float(np.sum(w)) - (b.end() - b.start())) > 1e-9 * max(1.0, abs(b.end() - b.start())):
            fails.append('basis integrals of direction %d add up to %r, domain length %r' % (d, float(np.sum(w)), b.end() - b.start()))
    return fails


def _oracle_measure(sp, s, o=None):
    """Value vs reference within the honest budget of the rule; exact for polynomial integrands;
    shrinking error under refinement."""
    o = o or gen.mk_object(sp, s['obj'])
    name = _measure_name(o)
    with np.errstate(all='ignore'):
        val = _measure(o)
    r = reference(o)
    if r is None or not r['regular']:
        return []
    fails = []
    R = r['ref']
    if r['poly']:
        if abs(val - R) > 1e-9 * R:
            fails.append('%s %.15g of a polynomial-integrand object differs from the exact value %.15g' % (name, val, R))
        return fails
    if abs(val - R) > 1.000001 * r['budget'] + 1e-9 * R:
        fails.append('%s %.15g is further from the reference %.15g than the element-wise error budget %.3g of its own rule' % (
            name, val, R, r['budget']))
    if 'obj' in s and not _refinable(s['obj']):
        return fails
    c = o.clone()
    errs = [abs(val - R)]
    for _ in range(2 if o.pardim < 3 else 1):
        c.refine(1)
        with np.errstate(all='ignore'):
            errs.append(abs(_measure(c) - R))
    floor = 1e-10 * R
    if errs[-1] > max(0.5 * r['budget'], floor):
        fails.append('%s error does not shrink under refinement: %r (budget %.3g)' % (name, errs, r['budget']))
    return fails


def _interval_ref(o, t0, t1):
    """Reference length of o on [t0,t1], the honest element-wise budget of the code's rule on the
    spans the code uses for that interval, and whether the reference is trustworthy."""
    ks = [t0] + [k for k in o.knots(0) if t0 < k < t1] + [t1]
    n = max(2 * o.order(0) + 4, 14)

    def comp(n, sub):
        kk = np.concatenate([np.linspace(x, y, sub + 1)[:-1] for x, y in zip(ks[:-1], ks[1:])] + [np.array([ks[-1]])])
        t, w = _span_nodes(kk, n)
        d = np.sqrt(np.sum(o.derivative(t) ** 2, axis=-1))
        return (d * w).reshape(len(ks) - 1, -1).sum(axis=1), float(d.min()), float(d.max())

    code, _, _ = comp(o.order(0) + 1, 1)
    ref, lo, hi = comp(n, 2)
    ref2, _, _ = comp(n + 5, 2)
    R = float(ref2.sum())
    ok = R > 0 and abs(float(ref.sum()) - R) <= 1e-11 * R and lo >= 1e-3 * hi
    return R, float(np.sum(np.abs(code - ref2))), ok


def _oracle_length_interval(sp, s):
    o = gen.mk_object(sp, s['obj'])
    info = gen.basis_info(s['obj']['bases'][0])
    a, e = info['start'], info['end']
    t0 = a if s['t0'] is None else s['t0']
    t1 = e if s['t1'] is None else s['t1']
    if not (a <= t0 < t1 <= e):
        return []
    with np.errstate(all='ignore'):
        val = float(o.length(s['t0'], s['t1']))
        R, budget, ok = _interval_ref(o, t0, t1)
    if not ok:
        return []
    fails = []
    exact_poly = (not o.rational) and o.order(0) == 2
    if abs(val - R) > (0 if exact_poly else 1.000001 * budget) + 1e-9 * R:
        fails.append('length(%r,%r) = %.15g is further from the reference %.15g than the budget %.3g' % (s['t0'], s['t1'], val, R, budget))
    # additivity over sub-intervals at the midpoint (each part within its own budget)
    m = 0.5 * (t0 + t1)
    with np.errstate(all='ignore'):
        l1, l2 = float(o.length(t0, m)), float(o.length(m, t1))
        R1, b1, ok1 = _interval_ref(o, t0, m)
        R2, b2, ok2 = _interval_ref(o, m, t1)
    if ok1 and ok2:
        if abs(R1 + R2 - R) > 1e-9 * R:
            return fails       # the references themselves are not additive to 1e-9: inconclusive
        if abs(l1 + l2 - R) > 1.000001 * (b1 + b2) + 1e-9 * R:
            fails.append('length(t0,m)+length(m,t1) = %.15g differs from the length(t0,t1) reference %.15g beyond the budgets %.3g' % (
                l1 + l2, R, b1 + b2))
    return fails


def _oracle_volume(sp, s):
    o = gen.mk_object(sp, s['obj'])
    return _oracle_measure(sp, s, o)


def _weighted_center(pieces):
    sizes = [float(np.prod([e - a for a, e in zip(p.start(), p.end())])) for p in pieces]
    cs = [p.center() for p in pieces]
    return sum(sz * c for sz, c in zip(sizes, cs)) / sum(sizes)


def _oracle_repind(sp, s):
    o = gen.mk_object(sp, s['obj'])
    op = s['op']
    with np.errstate(all='ignore'):
        m0 = _measure(o)
        c0 = o.center()
        try:
            variants = _apply_op(sp, o, s)
        except Exception as e:   # noqa: BLE001
            return ['%s raised %s: %s' % (op, type(e).__name__, e)]
        if any(v is None for v in variants):
            return ['%s returned None' % op]
        m1 = sum(_measure(v) for v in variants)
    want0 = exact_center(s['obj'])
    if not exact.close(c0, want0, RTOL, 1e-10):
        return ['center %r differs from the exact (projective) integral mean %r' % (c0.tolist(), [float(x) for x in want0])]
    r0 = reference(o)
    if r0 is None or not r0['regular']:
        return []
    name = _measure_name(o)
    fails = []
    R = r0['ref']
    dim = o.dimension
    # -- centre
    if op == 'split':
        c1 = _weighted_center(variants) if not o.rational else None
    else:
        c1 = variants[0].center()
    if c1 is not None:
        if op == 'rigid':
            v = variants[0]
            # the map applied: x -> x R + shift; recover it from the real object by mapping the centre as a point
            probe = sp.Curve(sp.BSplineBasis(2), [list(c0), list(c0 + 1.0)])
            if dim == 3:
                probe.rotate(s['theta'], s['axis'])
            else:
                probe.rotate(s['theta'])
            probe.translate(s['shift'])
            want = probe[0][:dim]
        elif op == 'mirror':
            probe = sp.Curve(sp.BSplineBasis(2), [list(c0), list(c0 + 1.0)])
            probe.mirror(s['normal'])
            want = probe[0][:dim]
        elif op == 'scale':
            want = c0 * s['factor']
        else:
            want = c0
        sc = max(1.0, float(np.max(np.abs(want))))
        if np.max(np.abs(np.asarray(c1) - want)) > 1e-9 * sc:
            fails.append('center after %s is %r, expected %r' % (op, np.asarray(c1).tolist(), np.asarray(want).tolist()))
    # -- measure
    factor = 1.0
    if op == 'scale':
        factor = abs(s['factor']) ** o.pardim
    want_m = m0 * factor
    exactish = op in ('reverse', 'swap', 'rigid', 'mirror', 'scale') or r0['poly']
    if op == 'split' and not r0['poly']:
        # splitting at an existing knot keeps the node sets
        ks = o.knots(s['dir'])
        exactish = all(any(abs(k - x) < 1e-12 for x in ks) for k in s['knots'])
    if exactish:
        if abs(m1 - want_m) > 1e-9 * abs(want_m):
            fails.append('%s changed by %s: %.15g -> %.15g (expected factor %g)' % (name, op, m0, m1, factor))
    else:
        budget = r0['budget']
        for v in variants:
            rv = reference(v)
            if rv is None or not rv['regular']:
                return fails
            budget += rv['budget']
        if abs(m1 - want_m) > 1.000001 * budget + 1e-9 * R:
            fails.append('%s changed by %s beyond the quadrature error budget: %.15g -> %.15g (budget %.3g)' % (name, op, m0, m1, budget))
        if not _refinable(s['obj']):
            return fails
        # the difference must shrink under refinement of both representations
        a, bs = o.clone(), [v.clone() for v in variants]
        for _ in range(2 if o.pardim < 3 else 1):
            a.refine(1)
            for v in bs:
                v.refine(1)
        with np.errstate(all='ignore'):
            dref = abs(sum(_measure(v) for v in bs) - _measure(a))
        if dref > max(0.5 * budget, 1e-10 * R):
            fails.append('%s difference between the two representations does not shrink under refine: %.3g -> %.3g' % (
                name, abs(m1 - want_m), dref))
    return fails


def _oracle_analytic(sp, s):
    o = _analytic_obj(sp, s)
    want = _analytic_value(s)
    name = _measure_name(o)
    fails = []
    errs = []
    c = o.clone()
    for r in range(3 if o.pardim < 3 else 2):
        with np.errstate(all='ignore'):
            errs.append(abs(_measure(c) - want) / want)
        c.refine(1)
    for a, b in zip(errs[:-1], errs[1:]):
        if b > max(a, 1e-12):
            fails.append('%s of %s: error grows under refinement %r' % (name, s['shape'], errs))
            break
    if errs[-1] >= 1e-6:
        fails.append('%s of %s does not converge to the analytic value %.15g: relative errors %r' % (name, s['shape'], want, errs))
    ctr = np.array(s['prm'].get('center', (0, 0, 0)), dtype=float)
    if s['shape'] != 'arc':
        got = o.center()
        if s['shape'] in ('cylinder', 'cylinder_vol'):
            ctr = ctr + np.array([0, 0, s['prm']['h'] / 2])
        if np.max(np.abs(got - ctr[:len(got)])) > 1e-9 * max(1.0, np.max(np.abs(ctr))):
            fails.append('center of %s is %r, expected %r' % (s['shape'], got.tolist(), ctr.tolist()))
    if s['shape'] in ('circle', 'arc'):
        ts = np.linspace(o.start(0), o.end(0), 7)[:-1] + 0.01
        k = o.curvature(ts)
        if np.max(np.abs(k - 1.0 / s['prm']['r'])) > 1e-9 / s['prm']['r']:
            fails.append('curvature of a circle of radius %r is %r' % (s['prm']['r'], k.tolist()))
        ks = np.array([o.curvature(float(t)) for t in ts])
        if np.max(np.abs(k - ks)) > 1e-9 * np.max(np.abs(k)):
            fails.append('scalar and array curvature of the circle differ')
        c3 = o.clone().set_dimension(3)
        tau = c3.torsion(ts)
        if np.max(np.abs(tau)) > 1e-9:
            fails.append('torsion of a planar circle is %r' % tau.tolist())
        B = c3.binormal(ts)
        if np.max(np.abs(B - np.array([0, 0, 1.0]))) > 1e-9:
            fails.append('binormal of a circle in the xy-plane is not e_z')
    return fails


def _oracle_frenet_family(sp, s):
    o = gen.mk_object(sp, s['obj'])
    f = s['form']
    dim = o.dimension
    ts = list(s['ts'])
    above = s['above']
    fails = []
    if dim not in (2, 3):
        return []
    if f == 'frenet' and dim != 3:
        return []
    jets = _jets(s)
    with np.errstate(all='ignore'):
        try:
            got = _call_forms({'curvature': o.curvature, 'torsion': o.torsion}.get(f) or getattr(o, s['which']), s)
        except Exception as e:   # noqa: BLE001
            return ['%s(%s input) raised %s: %s' % (f if f != 'frenet' else s['which'], s['call'], type(e).__name__, e)]
        arr = None
        if s['call'] != 'array' and len(ts) >= 1:
            try:
                # array call with the same parameters doubled (avoids the one-element squeeze)
                fn = {'curvature': o.curvature, 'torsion': o.torsion}.get(f) or getattr(o, s['which'])
                arr = to_plain(fn(ts + ts, above=above))[:len(ts)]
            except Exception:   # noqa: BLE001
                arr = None
    if _ill_conditioned(s):
        return []      # (an exception above is reported whatever the conditioning)
    for i, (t, (x, v, a, da)) in enumerate(zip(ts, jets)):
        v3 = list(v) + [F(0)] * (3 - len(v))
        a3 = list(a) + [F(0)] * (3 - len(a))
        d3 = list(da) + [F(0)] * (3 - len(da))
        w = _cross(v3, a3)
        ww, vv = _dot(w, w), _dot(v3, v3)
        if vv == 0:
            continue
        g = got[i] if isinstance(got, list) and len(got) == len(ts) else None
        if g is None:
            return ['%s returned %r for %d parameters' % (f, got, len(ts))]
        if f == 'curvature':
            want = math.sqrt(float(ww)) / math.sqrt(float(vv)) ** 3
            gv = np.asarray(g, dtype=float)
            if gv.shape != () or abs(float(gv) - want) > 1e-9 * max(1.0, want):
                fails.append('curvature(%s) at %r is %r, exact formula gives %.15g' % (s['call'], t, g, want))
        elif f == 'torsion':
            if dim == 2:
                want = 0.0
            else:
                if ww == 0:
                    continue
                want = float(_dot(w, d3) / ww)
            gv = np.asarray(g, dtype=float).reshape(-1)
            if gv.shape != (1,) or abs(float(gv[0]) - want) > 1e-9 * max(1.0, abs(want)):
                fails.append('torsion(%s) at %r is %r, (v x a).a\'/|v x a|^2 = %.15g' % (s['call'], t, g, want))
        else:
            if ww == 0:
                continue       # the property speaks about v x a != 0 (the code substitutes a direction)
            gv = np.asarray(g, dtype=float)
            if gv.shape != (3,):
                fails.append('%s(%s) at %r has shape %s' % (s['which'], s['call'], t, gv.shape))
                continue
            Bx = np.array([float(c) for c in w]) / math.sqrt(float(ww))
            Tx = np.array([float(c) for c in v3]) / math.sqrt(float(vv))
            want = Bx if s['which'] == 'binormal' else np.cross(Bx, Tx)
            if np.max(np.abs(gv - want)) > 1e-9:
                fails.append('%s(%s) at %r is %r, exact %r' % (s['which'], s['call'], t, gv.tolist(), want.tolist()))
            # orthonormal frame from the real code
            try:
                tt = t if s['call'] == 'scalar' else [t, t]
                T = np.asarray(o.tangent(tt, above=above)).reshape(-1, 3)[0]
                Bv = np.asarray(o.binormal(tt, above=above)).reshape(-1, 3)[0]
                Nv = np.asarray(o.normal(tt, above=above)).reshape(-1, 3)[0]
                G = np.array([[np.dot(p, q) for q in (T, Nv, Bv)] for p in (T, Nv, Bv)])
                if np.max(np.abs(G - np.eye(3))) > 1e-9:
                    fails.append('Frenet vectors at %r are not orthonormal: Gram matrix %r' % (t, G.tolist()))
                if np.max(np.abs(np.cross(T, Nv) - Bv)) > 1e-9:
                    fails.append('T x N != B at %r' % t)
            except Exception as e:   # noqa: BLE001
                fails.append('tangent/binormal/normal raised %s: %s' % (type(e).__name__, e))
        if arr is not None and f in ('curvature', 'torsion'):
            gs = float(np.asarray(g, dtype=float).reshape(-1)[0]) if np.asarray(g).size == 1 else None
            av = float(np.asarray(arr[i], dtype=float).reshape(-1)[0]) if np.asarray(arr[i]).size == 1 else None
            if gs is None or av is None or abs(gs - av) > 1e-9 * max(1.0, abs(av)):
                fails.append('%s: %s call gives %r, array call gives %r at %r' % (f, s['call'], g, arr[i], t))
        if fails:
            break
    # closed forms of the twisted cubic
    if s.get('twisted') and not fails:
        for t, g in zip(ts, got):
            if f == 'torsion':
                want = 3.0 / (9 * t ** 4 + 9 * t ** 2 + 1)
            else:
                want = 2 * math.sqrt(9 * t ** 4 + 9 * t ** 2 + 1) / (9 * t ** 4 + 4 * t ** 2 + 1) ** 1.5
            if abs(float(np.asarray(g).reshape(-1)[0]) - want) > 1e-9:
                fails.append('%s of the twisted cubic at %r is %r, closed form %.15g' % (f, t, g, want))
                break
    # rotation invariance and scaling of curvature/torsion on the real code
    well = all(_dot(j[1], j[1]) != 0 and
               float(_dot(_cross(j[1], j[2]), _cross(j[1], j[2]))) > 1e-8 * float(_dot(j[1], j[1])) * float(_dot(j[2], j[2]))
               for j in jets) if dim == 3 else False
    if not fails and well and f in ('curvature', 'torsion') and dim == 3 and s['call'] == 'array':
        with np.errstate(all='ignore'):
            fn = (lambda c: np.asarray(getattr(c, f)(ts, above=above), dtype=float))
            base = fn(o)
            rot = fn(o.clone().rotate(0.7, [1, 2, -0.5]).translate([1, -2, 3]))
            sc = fn(o.clone().scale(-2.0))
        if np.all(np.isfinite(base)):
            tolv = 1e-8 * max(1.0, float(np.max(np.abs(base))))
            if np.max(np.abs(rot - base)) > tolv:
                fails.append('%s is not invariant under a rigid motion: %r vs %r' % (f, base.tolist(), rot.tolist()))
            want = base / 2.0 if f == 'curvature' else base / (-2.0)
            if np.max(np.abs(sc - want)) > tolv:
                fails.append('%s does not scale with 1/s under uniform scaling by -2: %r vs %r' % (f, base.tolist(), sc.tolist()))
    return fails


def oracle(sp, s):
    f = s['form']
    if f == 'integrate':
        return _oracle_integrate(sp, s)
    if f == 'center':
        return _oracle_center(sp, s)
    if f == 'volume':
        return _oracle_volume(sp, s)
    if f == 'length':
        if s['t0'] is None and s['t1'] is None:
            return _oracle_measure(sp, s)
        return _oracle_length_interval(sp, s)
    if f == 'area':
        o = gen.mk_object(sp, s['obj'])
        if o.dimension not in (2, 3):
            return []
        return _oracle_measure(sp, s, o)
    if f in ('curvature', 'torsion', 'frenet'):
        return _oracle_frenet_family(sp, s)
    if f == 'repind':
        return _oracle_repind(sp, s)
    if f == 'analytic':
        return _oracle_analytic(sp, s)
    raise AssertionError(f)


# ---------------------------------------------------------------------------------------------
# classification / coverage

def classify(s, res=None):
    f = s['form']
    if f == 'integrate' and _small_periodic(s['basis']):
        return 'integrate-periodic-collapse-single-fold'
    if f in ('center', 'repind') and any(_small_periodic(b) for b in s['obj']['bases']):
        return 'integrate-periodic-collapse-single-fold'
    if f == 'torsion' and s['call'] == 'scalar' and _dim(s['obj']) == 3:
        return 'torsion-scalar-branch-uses-acceleration'
    if f in ('torsion', 'frenet') and s['call'] != 'scalar' and len(s['ts']) == 1 and s['obj']['rational']:
        return 'rational-curve-one-element-list-derivative-squeezed'
    return None


def _dim(o):
    cps = np.array(o['cps'])
    return cps.shape[-1] - (1 if o['rational'] else 0)


def tags(s, res):
    f = s['form']
    out = ['form=' + f]
    if f == 'integrate':
        b = s['basis']
        info = gen.basis_info(b)
        kn = b['knots']
        p = b['order']
        if info['k'] >= 0:
            out.append('integrate:periodic')
            if s['t0'] < info['start'] or s['t1'] > info['end']:
                out.append('integrate:seam-refusal')
        else:
            clamped = all(x == kn[0] for x in kn[:p]) and all(x == kn[-1] for x in kn[-p:])
            out.append('integrate:open' if clamped else 'integrate:nonopen')
            if s['t0'] < info['start'] or s['t1'] > info['end']:
                out.append('integrate:clamped')
        out.append('integrate:p=%d' % p)
        if s['t0'] > s['t1']:
            out.append('integrate:reversed')
        return out
    if f == 'analytic':
        sh = s['shape'].replace('_vol', '')
        out.append('analytic:' + ('circle' if sh == 'arc' else sh))
        out.append('pardim=%d' % {'circle': 1, 'arc': 1, 'disc': 2, 'sphere': 2, 'cylinder': 2, 'torus': 2}.get(s['shape'], 3))
        return out
    o = s['obj']
    out.append('pardim=%d' % len(o['bases']))
    per = any(b['periodic'] >= 0 for b in o['bases'])
    if f in ('center', 'length', 'area', 'volume', 'repind') and _non_open(o):
        out.append(f + ':non-open')
    if f == 'center':
        if o['rational']:
            out.append('center:rational')
        if per:
            out.append('center:periodic')
    if f == 'length':
        if s['t0'] is not None or s['t1'] is not None:
            out.append('length:clipped')
        if o['rational']:
            out.append('length:rational')
        if per:
            out.append('length:periodic')
        if s['t0'] is not None and s['t1'] is not None and s['t0'] > s['t1']:
            out.append('length:empty')
        if s['t0'] == 0 or s['t1'] == 0:
            out.append('length:bound=0')
    if f == 'area':
        d = _dim(o)
        out.append({2: 'area:planar', 3: 'area:3d'}.get(d, 'area:dim4-error'))
        if not o['rational'] and d == 2:
            out.append('area:orders-' + _order_pattern(o))
    if f == 'volume' and not o['rational']:
        out.append('volume:orders-' + _order_pattern(o))
    if f == 'repind' and len(o['bases']) >= 2 and not o['rational'] and _order_pattern(o) != 'equal':
        out.append('repind:mixed-orders')
        out.append('repind:mixed-orders:' + s['op'])
    if f in ('curvature', 'torsion', 'frenet'):
        out.append('call=' + s['call'])
        out.append('dim=%d' % _dim(o))
        if o['rational']:
            out.append(f + ':rational')
        if not s['above']:
            out.append('from-below')
        if _ill_conditioned(s):
            out.append('ill-conditioned')
    if f == 'repind':
        out.append('repind:' + s['op'])
        if o['rational']:
            out.append('repind:rational')
        if per:
            out.append('repind:periodic')
    if res is not None and isinstance(res.get('impl'), Err):
        out.append('raises:' + res['impl'].kind)
    return out


def nontrivial(s, res):
    return not isinstance(res.get('impl'), Err)
