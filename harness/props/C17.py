"""C17 — the multipatch model identifies shared entities for any orientation and add order.

Correspondence: the Lean model (lean/Splipy/Model/Orientation.lean, Catalogue.lean; exact rationals,
exact VertexDict keys) versus splipy.splinemodel on
  * orientation algebra on concrete orientations / arrays / sections (`ori_*`, `sections`),
  * `Orientation.compute` on object pairs (matching in every orientation, and non-matching),
  * `SplineObject.section`, `utils.is_right_hand`,
  * whole model histories (`c17_model`): node counts, lower/higher links, boundary(), owners, lookups
    of every section of every patch, lookups of re-oriented copies, NodeView.section.
The implementation gets tolerance-level noise on every control point (independently per patch), the
model the exact nets: agreement therefore also states insensitivity to such perturbations.

Known-finding classes (`classify`; all three reproduce on the snapshot 271dc65, minimal inputs in
corpus/C17/000-known-defect-reproducers.json):
  nodeview-section-wrong-frame        (FIXED by 8e83d07; label kept so that a regression is reported by name)
                                      the snapshot's NodeView.section computed `self.node.obj.section(*section)` with the
                                      section of the MAPPED frame; any view whose orientation moves the section raised
                                      OrientationError.  Model and code now both take the section in the reference frame
                                      (`orientation.map_section(section)`).
  compute-normalises-weights-only     Orientation.compute divides only the weight column by its sum: two rational nets
                                      with equal pre-multiplied coordinates and weights differing by a global factor
                                      (different geometry) are reported as matching.  Model follows the code.
  rational-vertex-key-ignores-weight  ObjectCatalogue keys vertices by `cps[..., :-1]` (pre-multiplied coordinates, weight
                                      dropped): distinct points (x1,w1), (x2,w2) with w1*x1 == w2*x2 share a vertex node
                                      (wrong counts; follow-up OrientationError on edges).  Model follows the code.

Oracle (model independent): the cell complex computed combinatorially from quantised section nets
(entity = class of section nets under all axis permutations/reversals), compared with what SplineModel
reports; reported orientations applied with numpy; group laws checked on the real Orientation class.
"""
import importlib
import itertools
from fractions import Fraction as F

import numpy as np

from vlib import gen, exact
from vlib.val import line, Word
from vlib.compare import Err, diff, exc_kind
from props import _complexes as cx

ID = 'C17'
PYBASIS_METHODS = ['matches']   # basis.py methods re-translated and proved equal to the hand model each run
RTOL = 1e-9
ATOL = 1e-11
KTOL = gen.TOL
NOISE = 2e-9     # |perturbation| per coordinate; pairwise differences stay below the 1e-8 tolerance
QUANT = 2.0 ** 20
RULE = ('orientation algebra: all 2/8/48 orientations of pardim 1..3 (products, arrays of random shape, every section); '
        'compute: objects of pardim 0..3, rational or not or mixed, against every re-oriented copy and against non-matching '
        'variants (moved point, other knots, other order, other shape); models: structured grids 1..3x2x2, L/T/U/O unions, corner '
        'contact, stars of curves, self-connected rings, doubly self-connected tori, twins, duplicates, left-handed patches; '
        'random insertion order, every patch in a random one of its orientations, rational nets with shared weights, noise 2e-9 '
        'on the implementation side.  distinct = distinct protocol lines; non-trivial = at least one shared entity, a '
        're-oriented lookup or an orientation search over >= 2 candidates.')
REQUIRED_TAGS = ['pardim=1', 'pardim=2', 'pardim=3', 'family:self-connected', 'family:doubly-self-connected', 'rational',
                 'noise', 'twins-rejected', 'twin-error', 'left-handed-rejected', 'lookup-reoriented', 'lookup-foreign',
                 'family:L-shape', 'family:T-shape', 'family:O-shape', 'compute:nonmatching', 'compute:matching',
                 'vsec', 'mixed-rational', 'duplicate-patch']

# ---------------------------------------------------------------------------------------------
# helpers


def _sm(sp):
    return importlib.import_module('splipy.splinemodel')


def mk_obj(sp, o):
    """Real SplineObject from a spec (pardim 0..3)."""
    bases = [gen.mk_basis(sp, b) for b in o['bases']]
    cps = np.array(o['cps'], dtype=float)
    if len(bases) == 0:
        so = importlib.import_module('splipy.splineobject')
        return so.SplineObject([], cps, o['rational'], raw=True)
    cls = {1: sp.Curve, 2: sp.Surface, 3: sp.Volume}[len(bases)]
    return cls(*bases, cps, o['rational'], raw=True)


def enc_obj(o):
    return gen.enc_object(o)


def enc_ori(o):
    return [list(o[0]), [int(bool(f)) for f in o[1]]]


def enc_sec(sec):
    return [Word('N') if s is None else int(s) for s in sec]


def ori_plain(o):
    return [[int(x) for x in o.perm], [int(bool(f)) for f in o.flip]]


def mk_ori(sp, o):
    return _sm(sp).Orientation(tuple(int(x) for x in o[0]), tuple(bool(f) for f in o[1]))


def plain(v):
    """Parsed model value -> python ints/strings/lists."""
    if isinstance(v, list):
        return [plain(x) for x in v]
    if isinstance(v, F):
        return int(v) if v.denominator == 1 else float(v)
    return str(v)


def sec_plain(sec):
    return ['N' if s is None else int(s) for s in sec]


# ---------------------------------------------------------------------------------------------
# generation


def rand_ori(rng, n):
    return rng.choice(cx.all_orientations(n))


def rand_sec(rng, n, min_fixed=0):
    while True:
        s = [rng.choice([0, -1, None]) for _ in range(n)]
        if sum(1 for x in s if x is not None) >= min_fixed:
            return s


def small_object(rng, pardim, rational=None, symmetric=False):
    """Random object of pardim 0..3 with 2..3 points per direction, dyadic net."""
    if rational is None:
        rational = rng.random() < 0.4
    dim = rng.choice([2, 3]) if pardim < 3 else 3
    npts = [rng.choice([2, 2, 3]) for _ in range(pardim)]
    bases = [cx.axis_basis(rng, n) for n in npts]
    ncomp = dim + (1 if rational else 0)
    if symmetric:
        # tensor grid: many orientations fit; the search order decides
        net = np.zeros(tuple(npts) + (ncomp,))
        for idx in np.ndindex(*npts):
            x = [idx[d] / (npts[d] - 1) if d < pardim else 0.0 for d in range(dim)]
            net[idx] = x + ([1.0] if rational else [])
        cps = net.tolist()
        bases = [cx.axis_basis(rng, n, nonuniform=False) for n in npts]
    else:
        cps = gen.rand_cps(rng, npts, ncomp, rational)
        if rational:
            a = np.array(cps)
            a[..., :-1] *= a[..., -1:]
            cps = a.tolist()
    return {'bases': bases, 'cps': cps, 'rational': bool(rational)}


def variants_nonmatching(rng, a):
    """Objects that must NOT match `a` (each differs in one respect)."""
    out = []
    pardim = len(a['bases'])
    arr = np.array(a['cps'], dtype=float)
    # one point moved
    b = arr.copy()
    idx = tuple(rng.randrange(n) for n in b.shape[:-1])
    b[idx][0] += 0.25
    out.append(('moved-point', {'bases': a['bases'], 'cps': b.tolist(), 'rational': a['rational']}))
    if pardim >= 1:
        # other knot vector on the same net
        d = rng.randrange(pardim)
        bs = [dict(x) for x in a['bases']]
        n = arr.shape[d]
        o = bs[d]['order']
        if n > o:
            kn = list(bs[d]['knots'])
            lo, hi = kn[0], kn[-1]
            kn[o] = lo + (hi - lo) * 0.0625
            bs[d]['knots'] = kn
            out.append(('other-knots', {'bases': bs, 'cps': arr.tolist(), 'rational': a['rational']}))
        elif n == 3 and o == 3:
            bs[d] = cx.axis_basis(rng, 3, order=2)
            out.append(('other-order', {'bases': bs, 'cps': arr.tolist(), 'rational': a['rational']}))
        elif n == 2:
            pass
        # other shape
        if arr.shape[d] == 3:
            sl = [slice(None)] * arr.ndim
            sl[d] = slice(0, 2)
            bs2 = [dict(x) for x in a['bases']]
            bs2[d] = cx.axis_basis(rng, 2)
            out.append(('other-shape', {'bases': bs2, 'cps': arr[tuple(sl)].tolist(), 'rational': a['rational']}))
    if a['rational']:
        # same pre-multiplied coordinates, all weights doubled: a different geometry
        b = arr.copy()
        b[..., -1] *= 2.0
        out.append(('weights-scaled', {'bases': a['bases'], 'cps': b.tolist(), 'rational': True}))
    # other physical dimension
    if arr.shape[-1] - (1 if a['rational'] else 0) == 2:
        b = np.concatenate([arr[..., :2], np.zeros(arr.shape[:-1] + (1,)), arr[..., 2:]], axis=-1)
        out.append(('other-dimension', {'bases': a['bases'], 'cps': b.tolist(), 'rational': a['rational']}))
    return out


def gen_algebra(rng, tier):
    specs = []
    rep = 1 if tier == 'quick' else 4
    for n in (0, 1, 2, 3):
        oris = cx.all_orientations(n)
        # products: all pairs for n <= 2, a sample for n = 3
        pairs = list(itertools.product(oris, oris))
        if n == 3:
            pairs = rng.sample(pairs, 150 * rep)
        for a, b in pairs:
            c = rng.choice(oris)
            shape = [rng.randint(1, 3) for _ in range(n)]
            specs.append({'kind': 'mul', 'a': enc_ori(a), 'b': enc_ori(b), 'c': enc_ori(c), 'shape': shape})
        for o in oris:
            shape = [rng.randint(1, 4) for _ in range(n)]
            specs.append({'kind': 'map_array', 'o': enc_ori(o), 'shape': shape})
            secs = [list(s) for s in itertools.product([0, -1, None], repeat=n)]
            if n == 3 and tier == 'quick':
                secs = rng.sample(secs, 9)
            for s in secs:
                specs.append({'kind': 'section_maps', 'o': enc_ori(o), 'sec': s, 'shape': [rng.randint(2, 3) for _ in range(n)]})
            specs.append({'kind': 'ifem', 'o': enc_ori(o)})
    for src in range(0, 4):
        for tgt in range(0, src + 1):
            specs.append({'kind': 'sections', 'src': src, 'tgt': tgt})
    return specs


def gen_compute(rng, tier):
    specs = []
    nobj = 30 if tier == 'quick' else 300
    for i in range(nobj):
        pardim = rng.choice([0, 1, 1, 2, 2, 2, 3, 3])
        a = small_object(rng, pardim, symmetric=(i % 5 == 0))
        oris = cx.all_orientations(pardim)
        for o in (oris if len(oris) <= 8 or tier == 'thorough' else rng.sample(oris, 8)):
            b = cx.reorient(a, o[0], o[1])
            b['bases'] = [cx.place_basis(rng, x) for x in b['bases']]
            noise = (np.array([rng.uniform(-NOISE, NOISE) for _ in range(np.array(b['cps']).size)]).reshape(np.array(b['cps']).shape)).tolist() \
                if rng.random() < 0.5 else None
            specs.append({'kind': 'compute', 'a': a, 'b': b, 'noise': noise, 'applied': enc_ori(o), 'what': 'reoriented'})
        for what, b in variants_nonmatching(rng, a):
            o = rng.choice(oris)
            specs.append({'kind': 'compute', 'a': a, 'b': cx.reorient(b, o[0], o[1]), 'noise': None, 'applied': enc_ori(o), 'what': what})
        # mixed rational / non-rational with unit weights
        if not a['rational'] and pardim >= 1:
            arr = np.array(a['cps'])
            b = {'bases': a['bases'], 'cps': np.concatenate([arr, np.ones(arr.shape[:-1] + (1,))], axis=-1).tolist(), 'rational': True}
            o = rng.choice(oris)
            specs.append({'kind': 'compute', 'a': a, 'b': cx.reorient(b, o[0], o[1]), 'noise': None, 'applied': enc_ori(o), 'what': 'mixed-unit-weights'})
            specs.append({'kind': 'compute', 'a': cx.reorient(b, o[0], o[1]), 'b': a, 'noise': None, 'applied': enc_ori(o), 'what': 'mixed-unit-weights'})
        if pardim >= 1:
            sec = rand_sec(rng, pardim)
            specs.append({'kind': 'obj_section', 'a': a, 'sec': sec})
        if pardim in (2, 3):
            dim = np.array(a['cps']).shape[-1] - (1 if a['rational'] else 0)
            if dim == pardim:
                specs.append({'kind': 'rh', 'a': a})
    return specs


def model_queries(rng, c, nlook=3, nvsec=2):
    qs = []
    pardim = c['pardim']
    for p in c['patches']:
        qs.append(['secs', p])
    for _ in range(nlook):
        k = rng.randrange(len(c['patches']))
        d = rng.randint(0, pardim)
        sec = rng.choice(cx.sections(pardim, d))
        s = cx.section_of(c['patches'][k], sec)
        o = rand_ori(rng, d)
        q = cx.reorient(s, o[0], o[1])
        q['bases'] = [cx.place_basis(rng, b) for b in q['bases']]
        qs.append(['lookup', q, d])
    for _ in range(nvsec):
        k = rng.randrange(len(c['patches']))
        o = rand_ori(rng, pardim) if rng.random() < 0.8 else cx.all_orientations(pardim)[0]
        q = cx.reorient(c['patches'][k], o[0], o[1])
        qs.append(['vsec', q, rand_sec(rng, pardim, min_fixed=1)])
    # a foreign object: translated copy of a patch section
    k = rng.randrange(len(c['patches']))
    d = rng.randint(0, pardim)
    s = cx.section_of(c['patches'][k], rng.choice(cx.sections(pardim, d)))
    a = np.array(s['cps'], dtype=float)
    a[..., 0] += 64.0 * (a[..., -1] if s['rational'] else 1.0)
    qs.append(['lookup', {'bases': s['bases'], 'cps': a.tolist(), 'rational': s['rational']}, d, 'foreign'])
    # an object with the right boundary and another interior (needs an interior point)
    if d >= 1 and all(n >= 3 for n in np.array(s['cps']).shape[:-1]):
        a = np.array(s['cps'], dtype=float)
        a[(1,) * d][0] += 0.25
        qs.append(['lookup', {'bases': s['bases'], 'cps': a.tolist(), 'rational': s['rational']}, d, 'foreign-interior'])
    return qs


def finish_model(rng, c, twins=True, frh=False, batches=None, noise=True, flags=(), nlook=3, nvsec=2):
    """One or two specs: the complex with section/lookup queries, and (same complex) NodeView.section queries."""
    spec = {'kind': 'model', 'family': c['family'], 'pardim': c['pardim'], 'dim': c['dim'], 'patches': c['patches'],
            'noise': c.get('noise'), 'frh': bool(frh), 'flags': list(c.get('flags', [])) + list(flags),
            'orients': c.get('orients'), 'order': c.get('order')}
    if batches is None:
        batches = [[bool(twins), list(range(len(c['patches'])))]]
    spec['batches'] = batches
    qs = model_queries(rng, c, nlook, nvsec)
    spec['queries'] = [q for q in qs if q[0] != 'vsec']
    out = [spec]
    vq = [q for q in qs if q[0] == 'vsec']
    if vq:
        v = dict(spec)
        v['queries'] = vq
        v['only_queries'] = True
        out.append(v)
    return out


def mixed_rational(rng, c):
    """Make a non-rational complex mixed: some patches carry explicit unit weights (rational flag)."""
    out = dict(c)
    ps = []
    for p in c['patches']:
        if not p['rational'] and rng.random() < 0.5:
            a = np.array(p['cps'], dtype=float)
            a = np.concatenate([a, np.ones(a.shape[:-1] + (1,))], axis=-1)
            ps.append({'bases': p['bases'], 'cps': a.tolist(), 'rational': True})
        else:
            ps.append(p)
    out['patches'] = ps
    out['flags'] = list(c.get('flags', [])) + ['mixed-rational']
    return out


def gen_models(rng, tier):
    specs = []
    n = 230 if tier == 'quick' else 2500
    for i in range(n):
        pardim = [1, 2, 2, 3, 2, 3, 1, 2][i % 8]
        base = cx.random_complex(rng, tier, pardim)
        if not any(p['rational'] for p in base['patches']) and rng.random() < 0.15:
            base = mixed_rational(rng, base)
        noise = NOISE if rng.random() < 0.6 else None
        c = cx.scramble(rng, base, noise=noise)
        twins = rng.random() < 0.7
        if 'self2' in base['flags']:
            twins = rng.random() < 0.3
        specs.extend(finish_model(rng, c, twins=twins))
    # fixed families that must be present in every run
    reps = 2 if tier == 'quick' else 12
    for r in range(reps):
        for pardim in (2, 3):
            for name in ('L', 'T', 'O'):
                cells = cx.SHAPES_2D[name]
                if pardim == 3:
                    cells = cx.extrude_cells(cells, 1)
                if pardim == 3 and name == 'O' and r > 0 and tier == 'quick':
                    continue
                base = cx.cells_complex(rng, pardim, 3 if pardim == 3 else 2, cells, [2] * pardim, rational=(r % 2 == 1), family=name + '-shape')
                specs.extend(finish_model(rng, cx.scramble(rng, base, noise=NOISE if r % 2 == 0 else None), nlook=2, nvsec=1))
            specs.extend(finish_model(rng, cx.scramble(rng, cx.ring_complex(rng, pardim, rng.choice([3, 4]), 1, rational=(r % 2 == 1)), noise=NOISE)))
            specs.extend(finish_model(rng, cx.scramble(rng, cx.torus_complex(rng, pardim, 3, 3, rational=False), noise=None), twins=False))
            specs.extend(finish_model(rng, cx.scramble(rng, cx.torus_complex(rng, pardim, 3, 3, rational=False), noise=None), twins=True))
        # twins: rejected / accepted / TwinError through a second batch
        for pardim in (1, 2, 3):
            if pardim == 3 and r > 0 and tier == 'quick':
                continue
            t = cx.scramble(rng, cx.twins_complex(rng, pardim, 3, rational=(r % 2 == 1)), noise=None)
            specs.extend(finish_model(rng, t, twins=True, nlook=1, nvsec=0))
            specs.extend(finish_model(rng, t, twins=False, nlook=1, nvsec=1))
            specs.extend(finish_model(rng, t, batches=[[False, [0, 1]], [True, [2]]], nlook=1, nvsec=0))
        # duplicates: the same patch again in another orientation
        for pardim in (1, 2, 3):
            base = cx.random_complex(rng, tier, pardim, allow=('grid',))
            c = cx.scramble(rng, base, noise=None)
            k = rng.randrange(len(c['patches']))
            o = rand_ori(rng, pardim)
            c['patches'] = c['patches'] + [cx.reorient(c['patches'][k], o[0], o[1])]
            c['flags'] = list(c['flags']) + ['duplicate-patch']
            specs.extend(finish_model(rng, c))
        # handedness
        for pardim in (2, 3):
            base = cx.cells_complex(rng, pardim, pardim, cx.grid_cells([2] + [1] * (pardim - 1)), [rng.choice([2, 3]) for _ in range(pardim)],
                                    rational=(r % 2 == 1), family='grid-2x1-frh')
            specs.extend(finish_model(rng, cx.scramble(rng, base, noise=None, keep_right=True), frh=True, flags=['all-right']))
            specs.extend(finish_model(rng, cx.scramble(rng, base, noise=None, reorient_prob=1.0), frh=True))
        base = cx.cells_complex(rng, 2, 3, cx.grid_cells([2, 1]), [2, 2], family='grid-2x1-frh')
        specs.extend(finish_model(rng, cx.scramble(rng, base), frh=True, flags=['frh-wrong-dims']))
    return specs


def generate(rng, tier):
    return gen_algebra(rng, tier) + gen_compute(rng, tier) + gen_models(rng, tier)


# ---------------------------------------------------------------------------------------------
# model side


def _enc_query(q):
    if q[0] == 'secs':
        return [Word('secs'), enc_obj(q[1])]
    if q[0] == 'lookup':
        return [Word('lookup'), enc_obj(q[1])]
    if q[0] == 'vsec':
        return [Word('vsec'), enc_obj(q[1]), enc_sec(q[2])]
    raise ValueError(q[0])


def model_line(s):
    k = s['kind']
    if k == 'mul':
        return line('ori_mul', s['a'], s['b'])
    if k == 'map_array':
        n = int(np.prod(s['shape'])) if s['shape'] else 1
        return line('ori_map_array', s['o'], [s['shape'], list(range(n))])
    if k == 'section_maps':
        return line('ori_section_maps', s['o'], enc_sec(s['sec']))
    if k == 'ifem':
        return line('ori_ifem', s['o'])
    if k == 'sections':
        return line('sections', s['src'], s['tgt'])
    if k == 'compute':
        return line('ori_compute', enc_obj(s['a']), enc_obj(s['b']))
    if k == 'obj_section':
        return line('obj_section', enc_obj(s['a']), enc_sec(s['sec']))
    if k == 'rh':
        return line('is_right_hand', enc_obj(s['a']), KTOL)
    if k == 'model':
        return line('c17_model', s['pardim'], s['dim'], s['frh'],
                    [[b[0], [enc_obj(s['patches'][i]) for i in b[1]]] for b in s['batches']],
                    KTOL, [_enc_query(q) for q in s['queries']])
    raise ValueError(k)


# ---------------------------------------------------------------------------------------------
# implementation side


def _view_plain(lab, v):
    return [list(lab[id(v.node)]), ori_plain(v.orientation)]


def _call(f):
    try:
        return f()
    except Exception as e:  # noqa: BLE001
        return Err(exc_kind(e), str(e)[:200])


_cache = {}


def build_model(sp, s):
    """Build the real SplineModel of a model spec (cached for the oracle)."""
    key = id(s)
    if _cache.get('key') == key:
        return _cache['val']
    sm = _sm(sp)
    objs = [mk_obj(sp, cx.noisy(p, s['noise'][i] if s.get('noise') else None)) for i, p in enumerate(s['patches'])]
    try:
        model = sm.SplineModel(s['pardim'], s['dim'], force_right_hand=s['frh'])
        for tw, idxs in s['batches']:
            model.add([objs[i] for i in idxs], raise_on_twins=bool(tw))
        val = (model, objs, None)
    except Exception as e:  # noqa: BLE001
        val = (None, objs, Err(exc_kind(e), str(e)[:200]))
    _cache['key'] = key
    _cache['val'] = val
    _cache['spec'] = s
    return val


def labels(model):
    P = model.pardim
    nodes = [model.catalogue.nodes(d) for d in range(P + 1)]
    lab = {}
    for d in range(P + 1):
        for i, n in enumerate(nodes[d]):
            lab[id(n)] = (d, i)
    return nodes, lab


def run_query(sp, model, lab, q):
    if q[0] == 'lookup':
        obj = mk_obj(sp, q[1])
        return _call(lambda: _view_plain(lab, model[obj]))
    if q[0] == 'secs':
        obj = mk_obj(sp, q[1])
        P = obj.pardim
        return [[_call(lambda sec=sec: _view_plain(lab, model[obj.section(*sec, unwrap_points=False)])) for sec in cx.sections(P, d)]
                for d in range(P + 1)]
    if q[0] == 'vsec':
        obj = mk_obj(sp, q[1])
        v = _call(lambda: model[obj])
        if isinstance(v, Err):
            return v
        return _call(lambda: _view_plain(lab, v.section(*q[2])))
    raise ValueError(q[0])


def run_impl(sp, s):
    k = s['kind']
    sm = _sm(sp)
    if k == 'mul':
        return ori_plain(mk_ori(sp, s['a']) * mk_ori(sp, s['b']))
    if k == 'map_array':
        n = int(np.prod(s['shape'])) if s['shape'] else 1
        r = mk_ori(sp, s['o']).map_array(np.arange(n, dtype=int).reshape(s['shape']))
        return [list(r.shape), r.reshape(-1).tolist()]
    if k == 'section_maps':
        o = mk_ori(sp, s['o'])
        return [sec_plain(o.map_section(tuple(s['sec']))), ori_plain(o.view_section(tuple(s['sec'])))]
    if k == 'ifem':
        return int(mk_ori(sp, s['o']).ifem_format)
    if k == 'sections':
        ut = importlib.import_module('splipy.utils')
        ss = [list(x) for x in ut.sections(s['src'], s['tgt'])]
        return [[sec_plain(x) for x in ss],
                [('None' if ut.section_to_index(x) is None else ut.section_to_index(x)) for x in ss],
                [sec_plain(ut.section_from_index(s['src'], s['tgt'], i)) for i in range(len(ss))]]
    if k == 'compute':
        a = mk_obj(sp, s['a'])
        b = mk_obj(sp, cx.noisy(s['b'], s['noise']))
        return ori_plain(sm.Orientation.compute(a, b))
    if k == 'obj_section':
        a = mk_obj(sp, s['a'])
        r = a.section(*s['sec'], unwrap_points=False)
        return gen.obj_observables(r)
    if k == 'rh':
        ut = importlib.import_module('splipy.utils')
        return bool(ut.is_right_hand(mk_obj(sp, s['a'])))
    if k == 'model':
        model, objs, err = build_model(sp, s)
        if err is not None:
            return err
        P = model.pardim
        nodes, lab = labels(model)
        counts = [len(x) for x in nodes]
        lowers = [[[[lab[id(x)][1] for x in dn] for dn in n.lower_nodes] for n in nodes[d]] for d in range(P + 1)]
        highers = [[[sorted(lab[id(x)][1] for x in n.higher_nodes.get(d + 1 + j, [])) for j in range(P - d)] for n in nodes[d]]
                   for d in range(P + 1)]
        boundary = _call(lambda: sorted(lab[id(n)][1] for n in model.boundary()))
        owners = [[(list(lab[id(n.owner)]) if n.owner is not None else []) for n in nodes[d]] for d in range(P + 1)]
        queries = [run_query(sp, model, lab, q) for q in s['queries']]
        return [counts, lowers, highers, boundary, owners, queries]
    raise ValueError(k)


def compare(s, iv, mv):
    return diff(iv, mv, rtol=RTOL, atol=ATOL)


# ---------------------------------------------------------------------------------------------
# oracle


def _quant(a):
    return np.round(np.asarray(a, dtype=float) * QUANT).astype(np.int64)


def _norm_knots(kn, rev):
    kn = np.asarray(kn, dtype=float)
    if rev:
        v = (kn[-1] - kn[::-1]) / (kn[-1] - kn[0])
    else:
        v = (kn - kn[0]) / (kn[-1] - kn[0])
    return tuple(int(x) for x in np.round(v * 2.0 ** 30))


def _homog(o):
    a = np.array(o['cps'], dtype=float)
    if not o['rational']:
        a = np.concatenate([a, np.ones(a.shape[:-1] + (1,))], axis=-1)
    return a


def entity_key(o):
    """Canonical form of an object under all axis permutations / reversals (net + bases).
    Vertices: the geometric point."""
    d = len(o['bases'])
    h = _homog(o)
    if d == 0:
        return (0, tuple(_quant(h[:-1] / h[-1]).tolist()))
    q = _quant(h)
    best = None
    for perm, flip in cx.all_orientations(d):
        net = cx.map_net(q, perm, flip)
        kn = tuple((o['bases'][perm[i]]['order'], _norm_knots(o['bases'][perm[i]]['knots'], flip[i])) for i in range(d))
        key = (tuple(net.shape), net.tobytes(), kn)
        if best is None or key < best:
            best = key
    return (d,) + best


def fits(a, b, perm, flip, tol=1e-7):
    """Does Orientation(perm, flip) map b onto a (nets and bases)?  Independent statement."""
    ha, hb = _homog(a), _homog(b)
    m = cx.map_net(hb, perm, flip)
    if m.shape != ha.shape or not np.allclose(m, ha, rtol=0, atol=tol):
        return False
    for i in range(len(perm)):
        ba, bb = a['bases'][i], b['bases'][perm[i]]
        if ba['order'] != bb['order'] or ba['periodic'] != bb['periodic'] or len(ba['knots']) != len(bb['knots']):
            return False
        if _norm_knots(ba['knots'], flip[i]) != _norm_knots(bb['knots'], False):
            return False
    return True


def jacobian_sign(o):
    """Normalised Jacobian determinant at the parametric centre from the exact defining sums."""
    d = len(o['bases'])
    params = [(F(float(b['knots'][b['order'] - 1])) + F(float(b['knots'][-b['order']]))) / 2 for b in o['bases']]
    h0 = exact.eval_point(o, params)
    cols = []
    for k in range(d):
        hk = exact.eval_point(o, params, [1 if i == k else 0 for i in range(d)])
        if o['rational']:
            W, Wd = h0[-1], hk[-1]
            cols.append([float(hk[i] / W - h0[i] * Wd / W / W) for i in range(len(h0) - 1)])
        else:
            cols.append([float(x) for x in hk])
    m = np.array(cols)
    norms = np.linalg.norm(m, axis=1)
    if np.any(norms == 0):
        return 0.0
    return float(np.linalg.det(m / norms[:, None]))


def oracle_model(sp, s):
    fails = []
    model, objs, err = build_model(sp, s)
    P, D = s['pardim'], s['dim']
    patches = s['patches']
    # ---- what the property expects -------------------------------------------------------------
    if s['frh'] and (P, D) not in ((2, 2), (3, 3)):
        if not (isinstance(err, Err) and err.kind == 'ValueError'):
            fails.append('force_right_hand with pardim %d in %dD accepted (%r)' % (P, D, err))
        return fails
    if s['frh']:
        signs = [jacobian_sign(p) for p in patches]
        if any(x < -0.2 for x in signs):
            if not (isinstance(err, Err) and err.kind == 'ValueError'):
                fails.append('left-handed patch (normalised Jacobians %s) not rejected: %r' % (signs, err))
            return fails
        if all(x > 0.2 for x in signs) and isinstance(err, Err) and err.kind == 'ValueError':
            return ['right-handed patches (normalised Jacobians %s) rejected' % signs]
    # occurrences (patch, dim, section index) -> entity key, facet multiset
    occ = {}
    facets = {}
    for k, p in enumerate(patches):
        for d in range(P + 1):
            for i, sec in enumerate(cx.sections(P, d)):
                so = cx.section_of(p, sec)
                ek = entity_key(so)
                occ[(k, d, i)] = ek
                if d >= 1:
                    facets.setdefault(ek, tuple(sorted(entity_key(cx.section_of(so, fs)) for fs in cx.sections(d, d - 1))))
    keys_by_dim = [sorted({ek for (k, d, i), ek in occ.items() if d == dd}) for dd in range(P + 1)]
    # twins: distinct cells with the same facets, visible to a batch that forbids them
    twin_dims = set()
    for d in range(1, P + 1):
        seen = {}
        for ek in keys_by_dim[d]:
            seen.setdefault(facets[ek], []).append(ek)
        if any(len(v) > 1 for v in seen.values()):
            twin_dims.add(d)
    forbids = any(tw for tw, _ in s['batches'])
    if twin_dims and forbids:
        # which batch first sees a second twin is history dependent; the property only says "rejected when requested"
        if len(s['batches']) == 1:
            if not (isinstance(err, Err) and err.kind in ('OrientationError', 'TwinError')):
                fails.append('twin cells of dimension %s not rejected although raise_on_twins is on: %r' % (sorted(twin_dims), err))
            return fails
        if isinstance(err, Err):
            if err.kind not in ('OrientationError', 'TwinError'):
                fails.append('unexpected error %r' % err)
            return fails
    elif isinstance(err, Err):
        return ['conforming complex rejected with %r (no twins%s)' % (err, '' if not s['frh'] else ', right-handed')]
    if model is None:
        return fails
    # ---- counts ----------------------------------------------------------------------------------
    nodes, lab = labels(model)
    quiet = bool(s.get('only_queries'))   # the complex itself is judged by the sibling spec
    for d in range(P + 1):
        if len(nodes[d]) != len(keys_by_dim[d]):
            fails.append('dimension %d: %d nodes for %d distinct entities' % (d, len(nodes[d]), len(keys_by_dim[d])))
    # ---- identity classes: lookups of every section ----------------------------------------------
    node_of = {}
    for (k, d, i), ek in occ.items():
        sec = cx.sections(P, d)[i]
        try:
            v = model[objs[k].section(*sec, unwrap_points=False)]
        except Exception as e:  # noqa: BLE001
            fails.append('lookup of section %s of patch %d raised %s' % (sec, k, exc_kind(e)))
            continue
        node_of[(k, d, i)] = v.node
    by_key, by_node = {}, {}
    for o_, ek in occ.items():
        if o_ in node_of:
            by_key.setdefault(ek, set()).add(id(node_of[o_]))
            by_node.setdefault(id(node_of[o_]), set()).add(ek)
    for ek, ns in by_key.items():
        if len(ns) > 1:
            fails.append('one entity of dimension %d is represented by %d nodes' % (ek[0], len(ns)))
            break
    for nid, eks in by_node.items():
        if len(eks) > 1:
            fails.append('one node represents %d distinct entities of dimension %d' % (len(eks), next(iter(eks))[0]))
            break
    if fails:
        return [] if quiet else fails
    key_of_node = {nid: next(iter(eks)) for nid, eks in by_node.items()}
    # ---- interfaces: higher neighbours and boundary ----------------------------------------------
    if P >= 1 and not quiet:
        inc = {}
        for (k, d, i), ek in occ.items():
            if d == P - 1:
                inc.setdefault(ek, []).append(k)
        top = {k: node_of.get((k, P, 0)) for k in range(len(patches))}
        # expected neighbours of an interface: every adjacent CELL (several patches may be copies of one
        # cell), as often as the interface occurs among the faces of that cell (self-connection: twice)
        expected = {}
        for ek, ks in inc.items():
            cells = {}
            for k in ks:
                cells.setdefault(id(top[k]), []).append(k)
            want = []
            for tid, kk in cells.items():
                want += [lab[tid][1]] * max(kk.count(k) for k in set(kk))
            expected[ek] = sorted(want)
        for n in nodes[P - 1]:
            ek = key_of_node.get(id(n))
            if ek is None:
                fails.append('a node of dimension %d is no section of any patch' % (P - 1))
                continue
            got = sorted(lab[id(x)][1] for x in n.higher_nodes.get(P, []))
            if expected[ek] != got:
                fails.append('interface %s: higher nodes %s, adjacent cells %s' % (lab[id(n)], got, expected[ek]))
        try:
            bnd = sorted(lab[id(n)][1] for n in model.boundary())
            unshared = sorted(lab[nid][1] for nid, ek in key_of_node.items() if ek[0] == P - 1 and len(expected[ek]) == 1)
            if bnd != unshared:
                fails.append('boundary() = %s, unshared faces = %s' % (bnd, unshared))
        except Exception as e:  # noqa: BLE001
            fails.append('boundary() raised %s' % exc_kind(e))
    # ---- queries -----------------------------------------------------------------------------------
    for q in s['queries']:
        if q[0] == 'lookup':
            obj = mk_obj(sp, q[1])
            ek = entity_key(q[1])
            known = ek in keys_by_dim[q[2]]
            try:
                v = model[obj]
            except KeyError:
                if known:
                    fails.append('lookup of a re-oriented copy of a stored entity (dim %d) raised KeyError' % q[2])
                continue
            except Exception as e:  # noqa: BLE001
                fails.append('lookup raised %s' % exc_kind(e))
                continue
            if not known:
                fails.append('lookup of an object that is not in the model returned a node')
                continue
            if key_of_node.get(id(v.node)) != ek:
                fails.append('lookup of a re-oriented copy returned another node')
                continue
            if not fits(gen.spec_of_object(v.node.obj) if q[2] > 0 else _spec0(v.node.obj), q[1], list(v.orientation.perm), list(v.orientation.flip)):
                fails.append('view orientation %s/%s does not map the query onto the node object' % (v.orientation.perm, v.orientation.flip))
        elif q[0] == 'vsec':
            obj = mk_obj(sp, q[1])
            try:
                v = model[obj]
            except Exception as e:  # noqa: BLE001
                fails.append('lookup of a re-oriented patch raised %s' % exc_kind(e))
                continue
            sub = cx.section_of(q[1], q[2])
            try:
                w = v.section(*q[2])
            except Exception as e:  # noqa: BLE001
                fails.append('NodeView.section%s on a view with orientation %s/%s raised %s' % (
                    tuple(q[2]), v.orientation.perm, v.orientation.flip, exc_kind(e)))
                continue
            if key_of_node.get(id(w.node)) != entity_key(sub):
                fails.append('NodeView.section returned the node of another entity')
            elif not fits(gen.spec_of_object(w.node.obj) if w.node.pardim > 0 else _spec0(w.node.obj), sub,
                          list(w.orientation.perm), list(w.orientation.flip)):
                fails.append('NodeView.section orientation does not map the section onto the node object')
    return fails


def _spec0(obj):
    return {'bases': [], 'cps': np.asarray(obj.controlpoints, dtype=float).tolist(), 'rational': bool(obj.rational)}


def oracle(sp, s):
    k = s['kind']
    sm = _sm(sp)
    fails = []
    if k == 'mul':
        a, b, c = mk_ori(sp, s['a']), mk_ori(sp, s['b']), mk_ori(sp, s['c'])
        n = len(s['a'][0])
        e = sm.Orientation(tuple(range(n)), tuple(False for _ in range(n)))
        eq = lambda x, y: tuple(x.perm) == tuple(y.perm) and tuple(x.flip) == tuple(y.flip)  # noqa: E731
        if not eq((a * b) * c, a * (b * c)):
            fails.append('(a*b)*c != a*(b*c)')
        if not (eq(a * e, a) and eq(e * a, a)):
            fails.append('identity law fails')
        if not any(eq(a * mk_ori(sp, enc_ori(x)), e) and eq(mk_ori(sp, enc_ori(x)) * a, e) for x in cx.all_orientations(n)):
            fails.append('no inverse')
        # documented direction: (a*b).map_array(X) == a.map_array(b.map_array(X))
        shape = s['shape']
        X = np.arange(int(np.prod(shape)) if shape else 1).reshape(shape)
        # X lives in system C; its shape must be what b expects: any shape works for a transpose
        if not np.array_equal((a * b).map_array(X), a.map_array(b.map_array(X))):
            fails.append('map_array(a*b) != map_array(a) o map_array(b)')
    elif k == 'map_array':
        o = mk_ori(sp, s['o'])
        shape = s['shape']
        X = np.arange(int(np.prod(shape)) if shape else 1).reshape(shape)
        Y = o.map_array(X)
        perm, flip = s['o']
        want_shape = tuple(shape[perm[d]] for d in range(len(perm)))
        if tuple(Y.shape) != want_shape:
            fails.append('shape %s, expected %s' % (Y.shape, want_shape))
        else:
            for i in np.ndindex(*want_shape):
                kidx = [0] * len(perm)
                for d in range(len(perm)):
                    kidx[perm[d]] = (want_shape[d] - 1 - i[d]) if flip[d] else i[d]
                if Y[i] != X[tuple(kidx)]:
                    fails.append('entry %s is not the entry %s of the source' % (i, kidx))
                    break
    elif k == 'section_maps':
        o = mk_ori(sp, s['o'])
        perm, flip = s['o']
        n = len(perm)
        # X in the mapped system with shape `shape`; Y = o.map_array(X) in the reference system
        shape = s['shape']
        X = np.arange(int(np.prod(shape)) if shape else 1).reshape(shape)
        Y = o.map_array(X)
        sec = tuple(s['sec'])
        idx = lambda t: tuple(slice(None) if x is None else x for x in t)  # noqa: E731
        ms = o.map_section(sec)
        vs = o.view_section(sec)
        lhs = Y[idx(ms)]
        rhs = vs.map_array(X[idx(sec)]) if lhs.ndim > 0 else X[idx(sec)]
        if not np.array_equal(lhs, rhs):
            fails.append('Y[map_section(s)] != view_section(s).map_array(X[s]) for o=%s s=%s' % (s['o'], s['sec']))
    elif k == 'ifem':
        pass
    elif k == 'compute':
        a = mk_obj(sp, s['a'])
        bn = cx.noisy(s['b'], s['noise'])
        b = mk_obj(sp, bn)
        n = len(s['a']['bases'])
        same_kind = (len(s['a']['bases']) == len(s['b']['bases'])) and (a.dimension == b.dimension)
        exists = same_kind and any(fits(s['a'], s['b'], p, f) for p, f in cx.all_orientations(n))
        try:
            o = sm.Orientation.compute(a, b)
        except sm.OrientationError:
            if exists:
                fails.append('matching objects (%s) reported as non-matching' % s['what'])
            return fails
        except Exception as e:  # neither an orientation nor "non-matching": the answer the property demands is missing
            fails.append('Orientation.compute raised %s (%s) for %s objects (%s) instead of returning an orientation or '
                         'raising OrientationError' % (type(e).__name__, str(e)[:100], 'matching' if exists else 'non-matching', s['what']))
            return fails
        if not exists:
            fails.append('non-matching objects (%s) reported as matching with %s/%s' % (s['what'], o.perm, o.flip))
        elif not fits(s['a'], bn, list(o.perm), list(o.flip)):
            fails.append('reported orientation %s/%s does not map b onto a' % (o.perm, o.flip))
        else:
            # sections and sub-orientations are mapped as well
            for sec in itertools.product([0, -1, None], repeat=n):
                sa = cx.section_of(s['a'], list(o.map_section(sec)))
                sb = cx.section_of(bn, list(sec))
                vo = o.view_section(sec)
                if not fits(sa, sb, list(vo.perm), list(vo.flip)):
                    fails.append('section %s: view_section orientation does not map the section nets' % (sec,))
                    break
    elif k == 'rh':
        sign = jacobian_sign(s['a'])
        ut = importlib.import_module('splipy.utils')
        got = bool(ut.is_right_hand(mk_obj(sp, s['a'])))
        if sign > 0.01 and not got:
            fails.append('right-handed patch (normalised Jacobian %.3f) reported left-handed' % sign)
        if sign < -0.01 and got:
            fails.append('left-handed patch (normalised Jacobian %.3f) reported right-handed' % sign)
    elif k == 'model':
        fails = oracle_model(sp, s)
    return fails


# ---------------------------------------------------------------------------------------------
# bookkeeping


def vertex_alias(s):
    """Two geometrically distinct corner points whose pre-multiplied coordinates (the VertexDict key of the
    code: `cps[..., :-1]`, weight dropped) coincide."""
    seen = {}
    for p in s['patches']:
        if not p['rational']:
            h = _homog(p)
        else:
            h = np.array(p['cps'], dtype=float)
        d = len(p['bases'])
        for sec in cx.sections(d, 0):
            c = h[tuple(sec)]
            key = tuple(_quant(c[:-1]).tolist())
            geo = tuple(_quant(c[:-1] / c[-1]).tolist())
            if seen.setdefault(key, geo) != geo:
                return True
    return False


def classify(s, res=None):
    """Known-finding classes (see the report of work package c17)."""
    k = s['kind']
    if res is None:
        return None
    msgs = res.get('oracle') or []
    if k == 'model':
        if s.get('only_queries') and (any('NodeView.section' in m for m in msgs) or (not msgs and res.get('diff'))):
            # snapshot defect, fixed by 8e83d07: section of the reference object taken in the mapped frame
            return 'nodeview-section-wrong-frame'
        if msgs and any(p['rational'] for p in s['patches']) and vertex_alias(s):
            return 'rational-vertex-key-ignores-weight'
    if k == 'compute' and s.get('what') == 'weights-scaled':
        return 'compute-normalises-weights-only'
    return None


def tags(s, res):
    k = s['kind']
    out = ['kind:' + k]
    if k in ('mul', 'map_array', 'section_maps', 'ifem'):
        out.append('ori-pardim=%d' % len((s.get('o') or s.get('a'))[0]))
    if k == 'compute':
        out.append('compute:' + ('matching' if s['what'] in ('reoriented', 'mixed-unit-weights') else 'nonmatching'))
        out.append('compute:' + s['what'])
        out.append('compute-pardim=%d' % len(s['a']['bases']))
        if s['noise']:
            out.append('noise')
        if s['a']['rational'] or s['b']['rational']:
            out.append('rational')
    if k == 'model':
        out.append('pardim=%d' % s['pardim'])
        out.append('family:' + s['family'])
        out.append('patches=%d' % len(s['patches']))
        if any(p['rational'] for p in s['patches']):
            out.append('rational')
        if s.get('noise'):
            out.append('noise')
        for f in s['flags']:
            out.append(f)
        iv = res['impl']
        if isinstance(iv, Err):
            out.append('raises:' + iv.kind)
            if 'twins' in s['flags'] and iv.kind == 'OrientationError':
                out.append('twins-rejected')
            if iv.kind == 'TwinError':
                out.append('twin-error')
            if s['frh'] and iv.kind == 'ValueError':
                out.append('left-handed-rejected')
        else:
            if s['frh']:
                out.append('right-handed-accepted')
            if 'twins' in s['flags']:
                out.append('twins-accepted')
            for q, a in zip(s['queries'], iv[5]):
                if q[0] == 'lookup':
                    out.append('lookup-foreign' if len(q) > 3 else 'lookup-reoriented')
                if q[0] == 'vsec':
                    out.append('vsec')
            if len(s['patches']) > 1 and iv[0][-1] > 1 and any(len(h[0]) > 1 for h in iv[2][s['pardim'] - 1] if h):
                out.append('shared-interface')
    return out


def nontrivial(s, res):
    k = s['kind']
    if k == 'model':
        return True
    if k in ('mul', 'map_array', 'section_maps'):
        return len((s.get('o') or s.get('a'))[0]) >= 1
    if k == 'compute':
        return len(s['a']['bases']) >= 1
    return True
