"""C04 — knot insertion and refinement never change the geometry.

Correspondence: `BSplineBasis.insert_knot` (new knot vector + matrix C, error classes),
`SplineObject.insert_knot` histories (scalars and lists, several directions), `refine` in its three
calling patterns, `geometric_refine` / `center_refine` / `edge_refine` versus the Lean model
(`Basis.insertKnot`, `Obj.insertKnotDir`, `Obj.refine`, `Obj.geometricRefine`, `Obj.gradedInsert`)
run at Q.  Observables: knot vectors (1e-12 relative), control points, shapes, exception classes.

Oracle (model independent): the property itself on the real code — evaluation before (exact
Fraction NURBS definition on the ORIGINAL spec) equals evaluation after (real evaluate on the real
result) at p+1 points of every NEW span and at every knot from both sides; knot vector = old + inserted
(periodic: as multisets modulo the period, ghost knots consistent); one more control point per
inserted knot; the result is accepted by the constructors; the domain is unchanged.

Proved in Lean (Properties/C04.lean; evaluator-level corollaries in Properties/Bridge.lean `Bridge_C04_*`):
open directions completely (single values, sequences, objects of any pardim fibre-wise, curves,
`refine`, `geometric_refine` without reverse); periodic directions for EVERY valid periodic basis and
any real value (the domain end included): valid repaired knot vector, periodic knot set = old plus the
inserted values, AND unchanged periodic spline with all derivatives (`C04_periodic`,
`C04_periodic_sequence`, `C04_periodic_object`; the two branches of `insert_knot` separately:
`C04_periodic_partial` for n >= p+k — the direct algorithm — and `C04_periodic_small` for n < p+k, where
`insert_knot` refines the R-fold cover of the basis).  The translated source of `insert_knot` equals the
hand model in both branches (`PyBasis_insert_knot_eq`, `PyBasis_insert_knot_eq_cover` with
`C04_source_insert_knot_small`).
"""
from fractions import Fraction as F
from math import atan, tan

import numpy as np

from vlib import gen, exact
from vlib.val import line
from vlib.compare import diff, Err

ID = 'C04'
PYOBJECT_METHODS = ['insert_knot']   # splineobject.py methods re-translated and proved equal to the hand model each run
PYBASIS_METHODS = ['insert_knot']   # basis.py methods re-translated and proved equal to the hand model each run
# theorems of this property stated for the object evaluator `Obj.evaluate` (bridge through C02)
EXTRA_THEOREMS = [('Splipy.Properties.Bridge', 'Splipy/Properties/Bridge.lean', 'Bridge_C04_'),
                  # the translated insert_knot = hand model in the cover branch, guards discharged for valid bases
                  ('Splipy.Lemmas.C04PyCover', 'Splipy/Lemmas/C04PyCover.lean', 'C04_source_')]
RTOL = 1e-9
ATOL = 1e-11
KNOT_RTOL = 1e-12
KE_ATOL = 1e-7     # utils/refinement.py knot_exists
KE_RTOL = 1e-10
RULE = ('objects pardim 1-3 (rational or not), orders 1..5, open bases with interior multiplicities 1..p, periodic bases of every '
        'continuity incl. the minimum sizes n = p-1-k .. ; insertion histories of 1-8 values (scalars and lists, several directions): '
        'new values, existing knots up to multiplicity p, periodic seam/end, values periods away, out-of-domain values (error class); '
        'objects from the raw=True constructor path: one basis instance in all directions (Surface(b,b,raw=True), Volume(b,b,b,raw=True), '
        'volume_factory.sphere(type=square)) and split pieces refined in another direction on several pieces; '
        'refine(n) / refine(n,direction) / refine(nu,nv,..); geometric (forward and reverse=True) / center / edge refine on open and on '
        'periodic directions with n >= p+k+1; single-basis insert_knot with its matrix. '
        'distinct = distinct protocol lines; non-trivial = at least one value is really inserted.')
REQUIRED_TAGS = ['kind=basis', 'kind=history', 'kind=refine', 'kind=geometric', 'kind=center', 'kind=edge',
                 'periodic-dir', 'open-dir', 'existing-knot', 'to-mult-p', 'periodic-seam', 'periodic-end', 'periodic-outside',
                 'periodic-min-size', 'out-of-domain', 'list-insert', 'scalar-insert', 'multi-direction', 'rational',
                 'pardim=1', 'pardim=2', 'pardim=3', 'refine=all', 'refine=one-dir', 'refine=per-dir', 'interior-mult>=2',
                 'geometric:reverse@periodic-dir', 'geometric:forward@periodic-dir', 'center@periodic-dir', 'edge@periodic-dir',
                 'geometric:reverse@periodic-dir,pardim=1', 'geometric:reverse@periodic-dir,pardim=2',
                 'geometric:reverse@periodic-dir,pardim=3',
                 'periodic-cover-branch', 'periodic-end-seam-mult>=2',     # the two repaired paths of periodic insert_knot
                 # objects from the internal raw=True constructor path (bases must not be shared between directions / objects)
                 'kind=shared', 'shared:insert', 'shared:refine', 'shared:pardim=2', 'shared:pardim=3', 'kind=sphere',
                 'kind=split', 'split:multi-piece', 'split:insert', 'split:refine']

TOLF = 1e-10
ASSUMPTIONS = [
    'periodic insertion is proved for every valid periodic basis and every real value (C04_periodic, C04_periodic_sequence, '
    'C04_periodic_object; cover branch n < p+k: C04_periodic_small; x = end included); the cover-branch theorems model the '
    'constructor call for the cover as accepting its argument (hypothesis hinit of C04_source_insert_knot_small)',
    'center_refine / edge_refine: the tan/atan placement values are computed by the harness with the library formula and passed to '
    'the model (no theorem that they lie inside the domain; the oracle checks every case); geometric_refine(reverse=True) composes '
    'C04_graded with Obj.reverse (C06)',
    'multi-direction histories are covered fibre-wise per direction (C04_object, C04_periodic_object) and by the '
    'evaluator-level Bridge_C04_* theorems for non-periodic directions (periodic directions at evaluator level: curves only, '
    'C04_periodic_evaluate_curve_partial); no single theorem quantifies over a mixed-direction history',
    'inputs with resulting knot multiplicity above the order are outside the property (the real code yields NaN) and are not generated',
]


# ----------------------------------------------------------------------------------------------
# bookkeeping of one parametric direction (definition level: the multiset of knots of one period)

class Track:
    def __init__(self, b, ref=None):
        info = gen.basis_info(b)
        self.p, self.k, self.n = info['p'], info['k'], info['n']
        self.start, self.end = info['start'], info['end']
        if ref is not None:     # reduce modulo the period of the ORIGINAL basis
            self.start, self.end = ref.start, ref.end
        self.T = self.end - self.start
        kn = list(b['knots'])
        self.clamped = (self.k < 0 and all(abs(x - self.start) <= TOLF for x in kn[:self.p])
                        and all(abs(x - self.end) <= TOLF for x in kn[-self.p:]))
        if self.k >= 0:
            self.vals = [self.canon(x) for x in kn[:self.n]]
        else:
            self.vals = kn

    def canon(self, x):
        if self.k < 0:
            return x
        r = (x - self.start) % self.T
        if abs(r - self.T) <= 1e-9 * max(1.0, abs(self.T)):
            r = 0.0
        return r

    def mult(self, x):
        c = self.canon(x)
        return sum(1 for v in self.vals if abs(v - c) <= TOLF)

    def in_domain(self, x):
        return self.k >= 0 or self.start <= x <= self.end

    def insert(self, x):
        self.vals.append(self.canon(x))
        self.n += 1

    def seam_mult(self):
        return self.mult(self.start)


def _steps_of(s):
    """All (dir, value) pairs of a history spec in order."""
    for st in s['steps']:
        for x in st['knots']:
            yield st['dir'], x


def _walk(s):
    """Walk a history: returns (in_quantifier, first known-defect label or None, flags)."""
    o = s['obj']
    tr = [Track(b) for b in o['bases']]
    inq = True
    label = None
    flags = set()
    for b, t in zip(o['bases'], tr):
        if t.k < 0 and not t.clamped:
            inq = False
    for d, x in _steps_of(s):
        if d >= len(tr):
            inq = False
            flags.add('bad-direction')
            break
        t = tr[d]
        if not t.in_domain(x):
            inq = False
            flags.add('out-of-domain')
            break
        m = t.mult(x)
        if m + 1 > t.p:
            inq = False
            flags.add('beyond-mult')
        if m > 0:
            flags.add('existing-knot')
        if m + 1 == t.p:
            flags.add('to-mult-p')
        if t.k >= 0:
            flags.add('periodic-dir')
            if x < t.start or x > t.end:
                flags.add('periodic-outside')
            if x == t.start:
                flags.add('periodic-seam')
            if x == t.end:
                flags.add('periodic-end')
                if t.seam_mult() >= 2:
                    flags.add('periodic-end-seam-mult>=2')    # IndexError before the end clamp (fixed)
            if t.n < t.p + t.k:
                flags.add('periodic-cover-branch')            # refined through the R-fold cover
        else:
            flags.add('open-dir')
        t.insert(x)
    return inq, label, flags


# ----------------------------------------------------------------------------------------------
# generators

def _new_value(rng, b, t):
    ks = gen.distinct_knots(b)
    ks = [x for x in ks if t.start <= x <= t.end]
    i = rng.randrange(len(ks) - 1)
    return ks[i] + (ks[i + 1] - ks[i]) * rng.choice([0.5, 0.25, 0.75, 0.125, 0.375, 0.625, 0.875])


def _values_for(rng, b, t, count, allow_bad=False):
    """`count` insertion values for a direction, keeping multiplicities <= p (unless allow_bad)."""
    out = []
    interior = [x for x in gen.distinct_knots(b) if t.start < x < t.end]
    for _ in range(count):
        r = rng.random()
        x = None
        if t.k >= 0:
            if r < 0.12:
                x = t.start
            elif r < 0.24:
                x = t.end
            elif r < 0.42:
                base = rng.choice(interior + [_new_value(rng, b, t)] * 2) if interior else _new_value(rng, b, t)
                x = base + rng.choice([-3, -2, -1, 1, 2, 4]) * t.T
            elif r < 0.6 and interior:
                x = rng.choice(interior)
            elif r < 0.7 and out:
                x = rng.choice(out)
        else:
            if r < 0.35 and interior:
                x = rng.choice(interior)
            elif r < 0.45 and out:
                x = rng.choice(out)
            elif allow_bad and r < 0.55:
                x = rng.choice([t.start - 0.5, t.end + 0.25, t.end + 1e-3, t.end])
        if x is None:
            x = _new_value(rng, b, t)
        if t.in_domain(x) and t.mult(x) + 1 > t.p and not (allow_bad and t.k < 0 and x == t.end):
            x = _new_value(rng, b, t)
            if t.mult(x) + 1 > t.p:
                continue
        out.append(x)
        if t.in_domain(x):
            t.insert(x)
    return out


def _fill_mult(rng, b, t):
    """Raise one interior knot (or the periodic seam) to multiplicity exactly p."""
    interior = [x for x in gen.distinct_knots(b) if t.start < x < t.end]
    cands = interior + ([t.start] if t.k >= 0 else [])
    if not cands:
        return []
    x = rng.choice(cands)
    vals = [x] * max(0, t.p - t.mult(x))
    for v in vals:
        t.insert(v)
    return vals


def _object(rng, pardim, periodic_prob=0.4, pmax=4, min_size=False, rational=None):
    o = gen.rand_object(rng, pardim=pardim, pmax=pmax if pardim < 3 else 3, periodic_prob=periodic_prob,
                        max_interior=3 if pardim == 1 else (2 if pardim == 2 else 1), pmin=1, rational=rational)
    if min_size:
        # replace one direction by a minimum-size periodic basis
        d = rng.randrange(pardim)
        p = rng.randint(2, 5 if pardim == 1 else 4)
        k = rng.randint(0, p - 2)
        b = gen.periodic_basis(rng, p, k, n_interior=rng.choice([0, 0, 1]))
        o['bases'][d] = b
        shape = [gen.basis_info(bb)['n'] for bb in o['bases']]
        ncomp = len(np.array(o['cps']).reshape(-1, np.array(o['cps']).shape[-1])[0])
        o['cps'] = gen.rand_cps(rng, shape, ncomp, o['rational'])
    return o


def _history(rng, o, nsteps, allow_bad=False):
    tr = [Track(b) for b in o['bases']]
    steps = []
    pd = len(tr)
    for _ in range(nsteps):
        d = rng.randrange(pd)
        if rng.random() < 0.15:
            vals = _fill_mult(rng, o['bases'][d], tr[d])
            if vals:
                steps.append({'dir': d, 'knots': vals, 'scalar': False})
                continue
        if rng.random() < 0.4:
            vals = _values_for(rng, o['bases'][d], tr[d], 1, allow_bad)
            if vals:
                steps.append({'dir': d, 'knots': vals, 'scalar': True})
        else:
            vals = _values_for(rng, o['bases'][d], tr[d], rng.randint(1, 4), allow_bad)
            steps.append({'dir': d, 'knots': vals, 'scalar': False})
    return steps


def generate(rng, tier):
    specs = []
    quick = tier == 'quick'
    # 1. single-basis insertions with the matrix
    nb = 140 if quick else 1500
    for bi in range(nb):
        p = rng.randint(1, 5 if quick else 7)
        mode = bi % 6
        if mode in (0, 1) and p >= 2:
            k = rng.randint(0, p - 2)
            b = gen.periodic_basis(rng, p, k, n_interior=rng.choice([0, 0, 1, 1, 2]) if mode == 0 else None)
        elif mode == 2 and p >= 2:
            b = gen.open_basis(rng, p, clamped=False)
        else:
            b = gen.open_basis(rng, p, wide=(not quick and rng.random() < 0.2))
        t = Track(b)
        xs = []
        interior = [x for x in gen.distinct_knots(b) if t.start < x < t.end]
        xs.append(_new_value(rng, b, t))
        xs += [x for x in interior if t.mult(x) + 1 <= t.p][:2]
        if t.k >= 0:
            xs += [t.start, t.end, _new_value(rng, b, t) + rng.choice([-2, -1, 1, 3]) * t.T]
            if interior:
                xs.append(rng.choice(interior) - t.T)
        else:
            xs += [t.start - 0.25, t.end + 0.5]
            if t.clamped:
                xs.append(t.end)       # IndexError (outside the property: multiplicity p+1)
            elif p >= 2:
                xs += [t.start, t.end]
        for x in xs:
            if t.in_domain(x) and t.mult(x) + 1 > t.p and not (t.clamped and x == t.end):
                continue
            specs.append({'kind': 'basis', 'basis': b, 'x': x})
    # 2. object histories
    nh = 420 if quick else 4000
    for hi in range(nh):
        pardim = [1, 2, 1, 3, 2, 1][hi % 6]
        o = _object(rng, pardim, min_size=(hi % 5 == 2), periodic_prob=0.45 if hi % 2 else 0.2)
        nsteps = rng.randint(1, 3 if pardim > 1 else 4)
        steps = _history(rng, o, nsteps, allow_bad=(hi % 9 == 4))
        if steps:
            specs.append({'kind': 'history', 'obj': o, 'steps': steps})
    # a few invalid directions
    for _ in range(3):
        o = _object(rng, rng.choice([1, 2]))
        specs.append({'kind': 'history', 'obj': o, 'steps': [{'dir': len(o['bases']), 'knots': [0.5], 'scalar': True}]})
    # 3. refine
    nr = 80 if quick else 900
    for ri in range(nr):
        pardim = [1, 2, 3, 2, 1][ri % 5]
        o = _object(rng, pardim, min_size=(ri % 6 == 5), periodic_prob=0.35)
        pat = ri % 3
        if pat == 0:
            specs.append({'kind': 'refine', 'obj': o, 'ns': [rng.randint(0, 3 if pardim < 3 else 2)], 'direction': None})
        elif pat == 1:
            specs.append({'kind': 'refine', 'obj': o, 'ns': [rng.randint(1, 3)], 'direction': rng.randrange(pardim + (1 if rng.random() < 0.1 else 0))})
        else:
            ns = [rng.randint(0, 2) for _ in range(pardim)]
            if rng.random() < 0.15 and pardim > 1:
                ns = ns[:-1]
            if len(ns) == 1 and pardim > 1:
                ns = ns + [1]
            specs.append({'kind': 'refine', 'obj': o, 'ns': ns, 'direction': None})
    # 4. graded refinement utilities
    ng = 60 if quick else 700
    for gi in range(ng):
        pardim = [1, 2, 1, 3][gi % 4]
        o = _object(rng, pardim, periodic_prob=0.25, min_size=(gi % 8 == 7))
        d = rng.randrange(pardim)
        kind = ['geometric', 'center', 'edge'][gi % 3]
        n = rng.randint(1, 5)
        if rng.random() < 0.06:
            n = rng.choice([0, -1])
        if kind == 'geometric':
            rev = bool(rng.random() < 0.35 and o['bases'][d]['periodic'] < 0)
            specs.append({'kind': kind, 'obj': o, 'alpha': rng.choice([0.5, 0.75, 1.0, 1.25, 2.0, 0.9, 3.0]), 'n': n, 'dir': d, 'reverse': rev})
        else:
            S = rng.choice([0.5, 1.0, 1.25, 1.5]) if kind == 'center' else rng.choice([0.5, 1.0, 3.0, 10.0])
            specs.append({'kind': kind, 'obj': o, 'S': S, 'n': n, 'dir': d})
    # 5. graded utilities on PERIODIC directions that are large enough (n >= p+k+1, so the known
    #    small-basis class is not involved): geometric_refine forward and reverse=True (reverse, insert,
    #    reverse: the periodic reverse must roll the control net), center_refine, edge_refine;
    #    curves and surface/volume directions, rational too, non-symmetric random control nets.
    npg = 64 if quick else 800
    for gi in range(npg):
        pardim = [1, 2, 1, 3, 2][gi % 5]
        o = _object(rng, pardim, periodic_prob=0.2, rational=bool(gi % 3 == 1))
        d = rng.randrange(pardim)
        p = rng.randint(2, 4 if pardim < 3 else 3)
        k = rng.randint(0, p - 2)
        b = gen.periodic_basis(rng, p, k, n_interior=2 * k + 2 + rng.randint(0, 2), max_mult=1 if rng.random() < 0.7 else p - 1)
        o['bases'][d] = b
        shape = [gen.basis_info(bb)['n'] for bb in o['bases']]
        ncomp = np.array(o['cps']).shape[-1]
        o['cps'] = gen.rand_cps(rng, shape, ncomp, o['rational'])
        assert gen.basis_info(b)['n'] >= p + k + 1
        kind = ['geometric', 'geometric', 'center', 'geometric', 'edge', 'geometric'][gi % 6]
        n = rng.randint(1, 4)
        if kind == 'geometric':
            specs.append({'kind': kind, 'obj': o, 'alpha': rng.choice([0.5, 0.75, 1.0, 1.25, 2.0, 0.9, 3.0]), 'n': n, 'dir': d,
                          'reverse': bool(gi % 6 != 1)})
        else:
            S = rng.choice([0.5, 1.0, 1.25, 1.5]) if kind == 'center' else rng.choice([0.5, 1.0, 3.0, 10.0])
            specs.append({'kind': kind, 'obj': o, 'S': S, 'n': n, 'dir': d})
    specs += _aliasing_specs(rng, quick)
    return specs


BEZ5 = {'order': 5, 'knots': [0.0] * 5 + [1.0] * 5, 'periodic': -1}     # the basis of volume_factory.sphere(type='square')


def _aliasing_specs(rng, quick):
    """Objects that come out of the library's internal `raw=True` constructor path, where several directions /
    several objects may hold the SAME BSplineBasis instance: the property must hold for them as for any object.
    * shared: Surface(b, b, cps, raw=True) / Volume(b, b, b, cps, raw=True) built from ONE instance, then
      insert_knot / refine in one direction;
    * sphere: volume_factory.sphere(type='square') (= Volume(b, b, b, ..., raw=True)), insertion in one direction;
    * split:  obj.split(points, d), then insert_knot / refine in another direction on MORE than one piece."""
    out = []
    for i in range(18 if quick else 200):
        pd = 2 if i % 3 else 3
        p = rng.randint(2, 4 if pd == 2 else 3)
        b = gen.open_basis(rng, p, n_interior=rng.randint(0, 2))
        n = gen.basis_info(b)['n']
        rational = bool(i % 4 == 1)
        cps = gen.rand_cps(rng, [n] * pd, 3 + (1 if rational else 0), rational)
        d = rng.randrange(pd)
        t = Track(b)
        if i % 2 == 0:
            vals = _values_for(rng, b, t, rng.randint(1, 3))
            out.append({'kind': 'shared', 'basis': b, 'pardim': pd, 'cps': cps, 'rational': rational, 'op': 'insert',
                        'dir': d, 'knots': vals})
        else:
            out.append({'kind': 'shared', 'basis': b, 'pardim': pd, 'cps': cps, 'rational': rational, 'op': 'refine',
                        'dir': d, 'n': rng.randint(1, 2), 'all': bool(i % 6 == 5)})
    for i in range(3 if quick else 12):
        d = i % 3
        vals = [rng.choice([0.5, 0.25, 0.75, 0.375])] if i < 3 else sorted(rng.sample([0.125, 0.25, 0.5, 0.625, 0.875], 2))
        out.append({'kind': 'sphere', 'r': rng.choice([1.0, 2.0, 0.5]), 'center': [rng.choice([0.0, 1.0, -2.0]) for _ in range(3)],
                    'dir': d, 'knots': vals})
    for i in range(14 if quick else 160):
        pd = 2 if i % 4 else 3
        o = _object(rng, pd, periodic_prob=0.25, pmax=3 if pd == 3 else 4, rational=bool(i % 3 == 1))
        # split direction: non-periodic with at least one admissible split point
        cands = [q for q in range(pd) if o['bases'][q]['periodic'] < 0]
        if not cands:
            continue
        sd = rng.choice(cands)
        tb = Track(o['bases'][sd])
        at = sorted(set(_new_value(rng, o['bases'][sd], tb) for _ in range(rng.randint(1, 2))))
        npieces = len(at) + 1
        d2 = rng.choice([q for q in range(pd) if q != sd])
        t2 = Track(o['bases'][d2])
        steps = []
        for piece in rng.sample(range(npieces), rng.randint(2, npieces)):
            if rng.random() < 0.65:
                vals = _values_for(rng, o['bases'][d2], Track(o['bases'][d2]), rng.randint(1, 2))
                steps.append({'piece': piece, 'op': 'insert', 'dir': d2, 'knots': vals})
            else:
                steps.append({'piece': piece, 'op': 'refine', 'dir': d2, 'n': 1})
        out.append({'kind': 'split', 'obj': o, 'sdir': sd, 'at': at, 'steps': steps})
    return out


def _as_plain(s):
    """The ordinary (alias-free) spec whose correspondence the new kinds reuse."""
    k = s['kind']
    if k == 'shared':
        o = {'bases': [s['basis']] * s['pardim'], 'cps': s['cps'], 'rational': s['rational']}
        if s['op'] == 'insert':
            return {'kind': 'history', 'obj': o, 'steps': [{'dir': s['dir'], 'knots': s['knots'], 'scalar': False}]}
        return {'kind': 'refine', 'obj': o, 'ns': [s['n']], 'direction': None if s['all'] else s['dir']}
    if k == 'sphere':
        return {'kind': 'basis', 'basis': BEZ5, 'x': s['knots'][0]}
    if k == 'split':
        # the insertions of the steps applied to the unsplit object (refine steps are oracle-only)
        return {'kind': 'history', 'obj': s['obj'],
                'steps': [{'dir': st['dir'], 'knots': st['knots'], 'scalar': False} for st in s['steps'] if st['op'] == 'insert']
                or [{'dir': s['steps'][0]['dir'], 'knots': [], 'scalar': False}]}
    return s


# ----------------------------------------------------------------------------------------------
# model side

def _graded_values(s):
    """The placement values of center_refine / edge_refine computed with the functions' own formula
    (floats, libm) — handed to the model, which does the knot_exists filtering and the insertion."""
    b = s['obj']['bases'][s['dir']]
    ks = _knot_spans(b)
    knot_start, knot_end = ks[0], ks[-1]
    dk = knot_end - knot_start
    n, S = s['n'], s['S']
    vals = []
    if s['kind'] == 'center':
        mx = tan(S)
        for i in range(1, n + 1):
            xi = -1.0 + 2.0 * i / (n + 1)
            xi *= S
            vals.append(knot_start + (tan(xi) + mx) / 2 / mx * dk)
    else:
        mx = atan(S)
        for i in range(1, n + 1):
            xi = -1.0 + 2.0 * i / (n + 1)
            xi *= S
            vals.append(knot_start + (atan(xi) + mx) / 2 / mx * dk)
    return vals


def _knot_spans(b):
    """What `BSplineBasis.knot_spans()` returns: distinct knots of `knots[p-1:-p+1]` (for order 1 the
    slice `[0:-0]` is EMPTY, so only the start knot is returned — the graded utilities then see a
    zero-length domain and `refine` inserts nothing in an order-1 direction)."""
    p = b['order']
    kn = b['knots']
    out = [kn[p - 1]]
    for x in (kn[p - 1:len(kn) - p + 1] if p > 1 else []):
        if abs(x - out[-1]) > gen.TOL:
            out.append(x)
    return out


def model_line(s):
    s = _as_plain(s)
    k = s['kind']
    if k == 'basis':
        return line('c04_basis_insert', gen.enc_basis(s['basis']), s['x'])
    if k == 'history':
        return line('c04_history', gen.enc_object(s['obj']), [[st['dir'], list(st['knots'])] for st in s['steps']])
    if k == 'refine':
        return line('c04_refine', gen.enc_object(s['obj']), gen.TOL, list(s['ns']), -1 if s['direction'] is None else s['direction'])
    if k == 'geometric':
        return line('c04_geometric', gen.enc_object(s['obj']), gen.TOL, KE_ATOL, KE_RTOL, s['alpha'], s['n'], s['dir'], s['reverse'])
    return line('c04_graded', gen.enc_object(s['obj']), gen.TOL, KE_ATOL, KE_RTOL, s['n'], _graded_values(s) if s['n'] > 0 else [], s['dir'])


# ----------------------------------------------------------------------------------------------
# implementation side

def _apply(sp, s):
    """Run the real operation; returns the real object (or basis, matrix)."""
    k = s['kind']
    if k == 'basis':
        b = gen.mk_basis(sp, s['basis'])
        C = b.insert_knot(s['x'])
        return b, C
    o = gen.mk_object(sp, s['obj'])
    if k == 'history':
        for st in s['steps']:
            if st['scalar'] and len(st['knots']) == 1:
                r = o.insert_knot(st['knots'][0], st['dir'])
            else:
                r = o.insert_knot(list(st['knots']), st['dir'])
            if r is not o:
                raise AssertionError('insert_knot did not return self')
        return o
    if k == 'refine':
        if s['direction'] is None:
            o.refine(*s['ns'])
        else:
            o.refine(*s['ns'], direction=s['direction'])
        return o
    import importlib
    rf = importlib.import_module(sp.__name__ + '.utils.refinement')   # same overlay as `sp`
    if k == 'geometric':
        rf.geometric_refine(o, s['alpha'], s['n'], s['dir'], s['reverse'])
    elif k == 'center':
        rf.center_refine(o, s['S'], s['n'], s['dir'])
    else:
        rf.edge_refine(o, s['S'], s['n'], s['dir'])
    return o


def _shared_object(sp, s):
    """Surface / Volume whose directions all hold ONE BSplineBasis instance, through the raw constructor path."""
    b = gen.mk_basis(sp, s['basis'])
    cls = {2: sp.Surface, 3: sp.Volume}[s['pardim']]
    return cls(*([b] * s['pardim']), np.array(s['cps'], dtype=float), s['rational'], raw=True)


def _apply_shared(sp, s, obj):
    if s['op'] == 'insert':
        obj.insert_knot(list(s['knots']), s['dir'])
    elif s['all']:
        obj.refine(s['n'])
    else:
        obj.refine(s['n'], direction=s['dir'])
    return obj


def run_impl(sp, s):
    if s['kind'] == 'shared':
        with np.errstate(all='ignore'):
            return gen.obj_observables(_apply_shared(sp, s, _shared_object(sp, s)))
    s = _as_plain(s)
    with np.errstate(all='ignore'):
        r = _apply(sp, s)
    if s['kind'] == 'basis':
        b, C = r
        return [[int(b.order), [float(x) for x in b.knots], int(b.periodic)], np.asarray(C, dtype=float).tolist()]
    return gen.obj_observables(r)


def _diff_obj(iv, mv):
    """bases: knots at KNOT_RTOL; shape exact; control points at RTOL."""
    if isinstance(iv, Err) or not isinstance(mv, list):
        return diff(iv, mv, RTOL, ATOL)
    d = diff(iv[0], mv[0], KNOT_RTOL, 1e-13, path='$.bases')
    if d:
        return d
    d = diff(iv[1], mv[1], RTOL, ATOL, path='$.shape')
    if d:
        return d
    d = diff(iv[2], mv[2], RTOL, ATOL, path='$.cps')
    if d:
        return d
    return diff(iv[3], mv[3], path='$.rational')


def compare(s, iv, mv):
    s = _as_plain(s)
    if s['kind'] == 'basis':
        if isinstance(iv, Err) or not isinstance(mv, list):
            return diff(iv, mv, RTOL, ATOL)
        return diff(iv[0], mv[0], KNOT_RTOL, 1e-13, path='$.basis') or diff(iv[1], mv[1], RTOL, ATOL, path='$.C')
    return _diff_obj(iv, mv)


# ----------------------------------------------------------------------------------------------
# oracle

def _close(a, b, scale=1.0, rtol=1e-10):
    return abs(a - b) <= rtol * max(1.0, abs(scale))


def _knot_fails(old_b, new_b, inserted, what):
    """Knot vector = old + exactly the inserted values; periodic images consistent; domain unchanged.
    `inserted` None = unknown values (only inclusion + count are checked by the caller)."""
    fails = []
    oi, ni = gen.basis_info(old_b), gen.basis_info(new_b)
    scale = max(abs(x) for x in old_b['knots']) + 1.0
    newk = list(new_b['knots'])
    if new_b['order'] != old_b['order'] or new_b['periodic'] != old_b['periodic']:
        fails.append('%s: order/periodicity changed' % what)
    if any(newk[i + 1] < newk[i] - 1e-12 * scale for i in range(len(newk) - 1)):
        fails.append('%s: new knot vector is not sorted: %r' % (what, newk))
    if not _close(ni['start'], oi['start'], scale) or not _close(ni['end'], oi['end'], scale):
        fails.append('%s: parametric domain changed from [%r,%r] to [%r,%r]' % (what, oi['start'], oi['end'], ni['start'], ni['end']))
    to = Track(old_b)
    tn = Track(new_b, to)
    if oi['k'] >= 0:
        T = oi['end'] - oi['start']
        for i in range(len(newk) - ni['n']):
            if not _close(newk[i + ni['n']], newk[i] + T, scale):
                fails.append('%s: periodic images inconsistent: knots[%d]=%r but knots[%d]+T=%r  (%r)' % (
                    what, i + ni['n'], newk[i + ni['n']], i, newk[i] + T, newk))
                break
    if inserted is not None:
        want = sorted(to.vals + [to.canon(x) for x in inserted])
        got = sorted(tn.vals)
        if len(want) != len(got) or any(not _close(a, b, scale) for a, b in zip(got, want)):
            fails.append('%s: knots are not old + inserted%s: got %r, want %r' % (
                what, ' (modulo the period)' if oi['k'] >= 0 else '', got, want))
    return fails


def _valid_fails(sp, obj, what='result'):
    fails = []
    try:
        bases = [sp.BSplineBasis(int(b.order), [float(x) for x in b.knots], int(b.periodic)) for b in obj.bases]
    except Exception as e:  # noqa: BLE001
        return ['%s: constructor rejects the new knot vector: %s: %s' % (what, type(e).__name__, e)]
    cps = np.asarray(obj.controlpoints, dtype=float)
    shape = tuple(b.num_functions() for b in bases)
    if cps.shape[:-1] != shape:
        fails.append('%s: control net shape %s does not match the bases %s' % (what, cps.shape[:-1], shape))
        return fails
    try:
        cls = {1: sp.Curve, 2: sp.Surface, 3: sp.Volume}[len(bases)]
        cls(*bases, cps, bool(obj.rational), raw=True)
    except Exception as e:  # noqa: BLE001
        fails.append('%s: constructor rejects bases/control points: %s: %s' % (what, type(e).__name__, e))
    if not np.all(np.isfinite(cps)):
        fails.append('%s: non-finite control points' % what)
    return fails


def _eval_sides(obj, params, rights):
    """Value of the real object at one parameter tuple with a side per direction, through the real
    basis evaluator rows and the real control points (defining contraction, weights divided out)."""
    cp = np.asarray(obj.controlpoints, dtype=float)
    for b, t, r in zip(obj.bases, params, rights):
        row = np.asarray(b.evaluate(t, 0, r)).reshape(-1)
        cp = np.tensordot(row, cp, axes=(0, 0))
    if obj.rational:
        return cp[:-1] / cp[-1]
    return cp


_OTHER = [0.37, 0.0, 0.8125, 1.0, 0.5, 0.0625]


def _geometry_fails(sp, o_spec, obj, dirs):
    """before (exact, ORIGINAL spec) == after (real evaluate on the real result) at p+1 points of every
    new span of every touched direction and at every knot from both sides."""
    fails = []
    pd = len(o_spec['bases'])
    newb = [gen.spec_of_basis(b) for b in obj.bases]
    infos = [gen.basis_info(b) for b in o_spec['bases']]
    for d in dirs:
        p = newb[d]['order']
        ni = gen.basis_info(newb[d])
        a, e = infos[d]['start'], infos[d]['end']
        ks = [x for x in gen.distinct_knots(newb[d]) if a - TOLF <= x <= e + TOLF]
        if not ks or abs(ks[0] - a) > TOLF:
            ks = [a] + ks
        if abs(ks[-1] - e) > TOLF:
            ks = ks + [e]
        ks[0], ks[-1] = a, e
        pts = list(ks)
        for x, y in zip(ks[:-1], ks[1:]):
            for j in range(p + 1):
                pts.append(x + (y - x) * (j + 1) / (p + 2))
        if ni['k'] >= 0:
            T = e - a
            pts += [pts[len(ks)] + 2 * T, pts[-1] - T]
        params = []
        for q in range(pd):
            if q == d:
                params.append(pts)
            else:
                s0, s1 = infos[q]['start'], infos[q]['end']
                params.append([s0 + (s1 - s0) * _OTHER[(i + q) % len(_OTHER)] for i in range(len(pts))])
        try:
            with np.errstate(all='ignore'):
                if pd == 1:
                    after = np.asarray(obj.evaluate(params[0]))
                else:
                    after = np.asarray(obj.evaluate(*params, tensor=False))
        except Exception as ex:  # noqa: BLE001
            fails.append('evaluate after insertion raised %s: %s' % (type(ex).__name__, ex))
            continue
        after = after.reshape(len(pts), -1)
        bad = 0
        for i in range(len(pts)):
            u = [params[q][i] for q in range(pd)]
            want = exact.nurbs_point(o_spec, u)
            if not exact.close(after[i], want, RTOL, 1e-10):
                bad += 1
                if bad == 1:
                    fails.append('geometry changed: direction %d, parameter %r: after %r, before %r' % (
                        d, u, after[i].tolist(), [float(x) for x in want]))
        if bad > 1:
            fails.append('geometry changed at %d of %d sample points of direction %d' % (bad, len(pts), d))
        # from the left at every knot
        for i, x in enumerate(ks):
            if i == 0 and ni['k'] < 0:
                continue     # no limit from the left at the start of a non-periodic direction
            u = [params[q][i] for q in range(pd)]
            rights = [q != d for q in range(pd)]
            want = exact.nurbs_point(o_spec, u, rights)
            try:
                with np.errstate(all='ignore'):
                    got = _eval_sides(obj, u, rights)
            except Exception as ex:  # noqa: BLE001
                fails.append('left evaluation after insertion raised %s: %s' % (type(ex).__name__, ex))
                break
            if not exact.close(got, want, RTOL, 1e-10):
                fails.append('geometry changed (limit from the left): direction %d, parameter %r: after %r, before %r' % (
                    d, u, np.asarray(got).tolist(), [float(x) for x in want]))
                break
    return fails


def _obj_quantified(o):
    for b in o['bases']:
        t = Track(b)
        if t.k < 0 and not t.clamped:
            return False
    return True


def _grid_fails(o_spec, obj, what, fr=(0.1, 0.4, 0.7, 0.95)):
    """Real evaluation of `obj` on a tensor grid strictly inside ITS OWN domain versus the exact definition on
    the ORIGINAL spec (pieces of a split cover a part of the original domain)."""
    pd = len(o_spec['bases'])
    try:
        with np.errstate(all='ignore'):
            params = [[float(obj.start(q)) + (float(obj.end(q)) - float(obj.start(q))) * f for f in (fr if pd < 3 else fr[::2] + fr[-1:])]
                      for q in range(pd)]
            vals = np.asarray(obj.evaluate(*params))
    except Exception as ex:  # noqa: BLE001 - an exception here IS a failure of the property on this input
        return ['%s: evaluation raised %s: %s' % (what, type(ex).__name__, str(ex)[:100])]
    vals = vals.reshape(tuple(len(q) for q in params) + (-1,))
    import itertools
    bad = 0
    first = None
    for idx in itertools.product(*[range(len(q)) for q in params]):
        u = [params[q][idx[q]] for q in range(pd)]
        want = exact.nurbs_point(o_spec, u)
        if not exact.close(vals[idx], want, RTOL, 1e-10):
            bad += 1
            if first is None:
                first = '%s: geometry changed at %r: %r, the original map gives %r' % (what, u, vals[idx].tolist(), [float(x) for x in want])
    return ([first] if first else []) + (['%s: %d grid points differ' % (what, bad)] if bad > 1 else [])


def _structure_fails(sp, obj, what):
    fails = []
    shape = np.asarray(obj.controlpoints).shape
    for q, b in enumerate(obj.bases):
        if b.num_functions() != shape[q]:
            fails.append('%s: invalid object: basis %d has %d functions but the control net has %d points there' % (
                what, q, b.num_functions(), shape[q]))
    return fails or _valid_fails(sp, obj, what)


def _oracle_shared(sp, s):
    """(1) one BSplineBasis instance in every direction (raw constructor path), insertion / refine in one direction."""
    pd = s['pardim']
    o_spec = {'bases': [s['basis']] * pd, 'cps': s['cps'], 'rational': s['rational']}
    try:
        obj = _shared_object(sp, s)
        with np.errstate(all='ignore'):
            _apply_shared(sp, s, obj)
    except Exception as ex:  # noqa: BLE001
        return ['%s on an object built from one basis instance raised %s: %s' % (s['op'], type(ex).__name__, str(ex)[:120])]
    fails = []
    touched = list(range(pd)) if (s['op'] == 'refine' and s['all']) else [s['dir']]
    old_shape = np.array(s['cps']).shape
    new_shape = np.asarray(obj.controlpoints).shape
    for q in range(pd):
        nb = gen.spec_of_basis(obj.bases[q])
        if q in touched:
            ins = list(s['knots']) if s['op'] == 'insert' else None
            fails += _knot_fails(s['basis'], nb, ins, 'direction %d' % q)
            grown = len(nb['knots']) - len(s['basis']['knots'])
            if new_shape[q] != old_shape[q] + grown or (ins is not None and grown != len(ins)):
                fails.append('direction %d: %d control points for %d new knots (before %d)' % (q, new_shape[q], grown, old_shape[q]))
        else:
            if len(nb['knots']) != len(s['basis']['knots']) or any(abs(x - y) > 1e-12 for x, y in zip(nb['knots'], s['basis']['knots'])):
                fails.append('direction %d was not refined but its knot vector changed: %r (was %r)' % (q, nb['knots'], s['basis']['knots']))
            if new_shape[q] != old_shape[q]:
                fails.append('direction %d was not refined but has %d control points (before %d)' % (q, new_shape[q], old_shape[q]))
    fails += _structure_fails(sp, obj, 'result')
    if not fails:
        fails += _geometry_fails(sp, o_spec, obj, touched)
    fails += _grid_fails(o_spec, obj, 'result')
    return fails


def _oracle_sphere(sp, s):
    """(1b) volume_factory.sphere(type='square') = Volume(b, b, b, ..., raw=True): insertion in one direction."""
    import importlib
    vf = importlib.import_module(sp.__name__ + '.volume_factory')
    try:
        ball = vf.sphere(s['r'], s['center'], type='square')
        o_spec = gen.spec_of_object(ball)            # the map BEFORE: the factory's own knots / control points
        old = [gen.spec_of_basis(b) for b in ball.bases]
        old_shape = np.asarray(ball.controlpoints).shape
        with np.errstate(all='ignore'):
            ball.insert_knot(list(s['knots']), s['dir'])
    except Exception as ex:  # noqa: BLE001
        return ['insert_knot on sphere(type=square) raised %s: %s' % (type(ex).__name__, str(ex)[:120])]
    fails = []
    new_shape = np.asarray(ball.controlpoints).shape
    for q in range(3):
        nb = gen.spec_of_basis(ball.bases[q])
        fails += _knot_fails(old[q], nb, list(s['knots']) if q == s['dir'] else [], 'sphere direction %d' % q)
        want = old_shape[q] + (len(s['knots']) if q == s['dir'] else 0)
        if new_shape[q] != want:
            fails.append('sphere direction %d: %d control points, expected %d' % (q, new_shape[q], want))
    fails += _structure_fails(sp, ball, 'sphere')
    fails += _grid_fails(o_spec, ball, 'sphere', fr=(0.15, 0.5, 0.85))
    return fails


def _oracle_split(sp, s):
    """(2) split in direction sdir, then insert / refine in another direction on more than one piece: after every
    step EVERY piece must still be valid and evaluate to the original map on its part of the domain."""
    o = s['obj']
    if not _obj_quantified(o):
        return []
    try:
        obj = gen.mk_object(sp, o)
        pieces = obj.split(list(s['at']), s['sdir'])
    except Exception as ex:  # noqa: BLE001
        return ['split raised %s: %s' % (type(ex).__name__, str(ex)[:120])]
    if not isinstance(pieces, (list, tuple)) or len(pieces) != len(s['at']) + 1:
        return []          # not the situation of this experiment (C07 owns split itself)
    fails = []
    for i, pc in enumerate(pieces):
        fails += _structure_fails(sp, pc, 'piece %d after split' % i) + _grid_fails(o, pc, 'piece %d after split' % i)
    if fails:
        return []          # the split itself is off: C07's subject, not this experiment
    knots = [[gen.spec_of_basis(b) for b in pc.bases] for pc in pieces]
    pd = len(o['bases'])
    for n, st in enumerate(s['steps']):
        i, d2 = st['piece'], st['dir']
        what = 'step %d (%s piece %d, direction %d)' % (n, st['op'], i, d2)
        try:
            with np.errstate(all='ignore'):
                if st['op'] == 'insert':
                    pieces[i].insert_knot(list(st['knots']), d2)
                else:
                    pieces[i].refine(st['n'], direction=d2)
        except Exception as ex:  # noqa: BLE001
            fails.append('%s raised %s: %s' % (what, type(ex).__name__, str(ex)[:120]))
            break
        for j, pc in enumerate(pieces):
            for q in range(pd):
                nb = gen.spec_of_basis(pc.bases[q])
                if j == i and q == d2:
                    fails += _knot_fails(knots[j][q], nb, list(st['knots']) if st['op'] == 'insert' else None, '%s: piece %d direction %d' % (what, j, q))
                elif len(nb['knots']) != len(knots[j][q]['knots']) or any(abs(x - y) > 1e-12 for x, y in zip(nb['knots'], knots[j][q]['knots'])):
                    fails.append('%s: knot vector of piece %d direction %d changed although it was not refined' % (what, j, q))
                knots[j][q] = nb
            fails += _structure_fails(sp, pc, '%s: piece %d' % (what, j))
            fails += _grid_fails(o, pc, '%s: piece %d' % (what, j))
        if fails:
            break
    return fails


def oracle(sp, s):
    k = s['kind']
    if k == 'shared':
        return _oracle_shared(sp, s)
    if k == 'sphere':
        return _oracle_sphere(sp, s)
    if k == 'split':
        return _oracle_split(sp, s)
    if k == 'basis':
        b = s['basis']
        t = Track(b)
        if t.n <= 0:
            # a basis without functions (corpus t1b_insert_zero_functions: periodic = p-1, num_functions = 0,
            # insert_knot raises ZeroDivisionError): no spline object exists over it, so the property says
            # nothing about it.  Outside the quantifier; the case stays in the correspondence run.
            return []
        if (t.k < 0 and not t.clamped) or not t.in_domain(s['x']) or t.mult(s['x']) + 1 > t.p:
            return []
        # the matrix acts on an arbitrary curve over this basis
        rs = np.random.RandomState(len(b['knots']) * 131 + b['order'])
        cps = (rs.randint(-8, 9, size=(t.n, 2)) / 4.0).tolist()
        o = {'bases': [b], 'cps': cps, 'rational': False}
        s2 = {'kind': 'history', 'obj': o, 'steps': [{'dir': 0, 'knots': [s['x']], 'scalar': True}]}
        fails = oracle(sp, s2)
        # and C itself has n+1 rows, n columns
        try:
            rb = gen.mk_basis(sp, b)
            with np.errstate(all='ignore'):
                C = np.asarray(rb.insert_knot(s['x']))
            if C.shape != (t.n + 1, t.n):
                fails.append('C has shape %s, expected %s' % (C.shape, (t.n + 1, t.n)))
        except Exception:  # noqa: BLE001 - already reported through the history oracle
            pass
        return fails
    o = s['obj']
    if not _obj_quantified(o):
        return []
    pd = len(o['bases'])
    if k == 'history':
        inq, _, _ = _walk(s)
        if not inq:
            return []
        try:
            with np.errstate(all='ignore'):
                obj = _apply(sp, s)
        except Exception as ex:  # noqa: BLE001
            return ['insert_knot raised %s: %s' % (type(ex).__name__, str(ex)[:120])]
        fails = []
        per_dir = {}
        for d, x in _steps_of(s):
            per_dir.setdefault(d, []).append(x)
        old_shape = np.array(o['cps']).shape
        new_shape = np.asarray(obj.controlpoints).shape
        for d in range(pd):
            cnt = len(per_dir.get(d, []))
            if new_shape[d] != old_shape[d] + cnt:
                fails.append('direction %d: %d control points after inserting %d knots into %d' % (d, new_shape[d], cnt, old_shape[d]))
            fails += _knot_fails(o['bases'][d], gen.spec_of_basis(obj.bases[d]), per_dir.get(d, []), 'direction %d' % d)
        if new_shape[-1] != old_shape[-1]:
            fails.append('number of components changed')
        fails += _valid_fails(sp, obj)
        if not any('shape' in f or 'control points after' in f for f in fails):
            fails += _geometry_fails(sp, o, obj, sorted(per_dir))
        return fails
    # refine and graded utilities: the inserted values are what the routine chooses; the property
    # demands: old knots kept, one control point per new knot, valid, same geometry.
    if k == 'refine':
        if s['direction'] is not None and s['direction'] >= pd:
            return []
    elif s['n'] <= 0 or s['dir'] >= pd:
        return []
    try:
        with np.errstate(all='ignore'):
            obj = _apply(sp, s)
    except Exception as ex:  # noqa: BLE001
        return ['%s raised %s: %s' % (k, type(ex).__name__, str(ex)[:120])]
    fails = []
    old_shape = np.array(o['cps']).shape
    new_shape = np.asarray(obj.controlpoints).shape
    touched = []
    for d in range(pd):
        ob, nb = o['bases'][d], gen.spec_of_basis(obj.bases[d])
        grown = len(nb['knots']) - len(ob['knots'])
        if new_shape[d] != old_shape[d] + grown or grown < 0:
            fails.append('direction %d: %d control points, %d new knots, before %d' % (d, new_shape[d], grown, old_shape[d]))
        if grown:
            touched.append(d)
        fails += _knot_fails(ob, nb, None, 'direction %d' % d)
        # old knots are kept (multiset inclusion), new ones lie in the domain
        to = Track(ob)
        tn = Track(nb, to)
        rest = sorted(tn.vals)
        for v in sorted(to.vals):
            j = next((j for j, w in enumerate(rest) if abs(w - v) <= 1e-9 * max(1.0, abs(v))), None)
            if j is None:
                fails.append('direction %d: old knot %r lost' % (d, v))
                break
            rest.pop(j)
        if k == 'refine':
            want_n = _refine_count(s, d, pd)
            spans = _knot_spans(ob)
            # (order-1 directions: knot_spans() has a single entry, nothing is inserted; C04 itself
            #  only constrains what IS inserted, so this is not an oracle failure)
            if want_n is not None and ob['order'] > 1:
                for x, y in zip(spans[:-1], spans[1:]):
                    cnt = len([w for w in nb['knots'][nb['order'] - 1:len(nb['knots']) - nb['order'] + 1] if x + 1e-12 < w < y - 1e-12])
                    if cnt != want_n:
                        fails.append('direction %d: span [%r,%r] received %d new knots, expected %d' % (d, x, y, cnt, want_n))
                        break
    fails += _valid_fails(sp, obj)
    if not fails or all('geometry' in f for f in fails):
        fails += _geometry_fails(sp, o, obj, touched)
    return fails


def _refine_count(s, d, pd):
    ns, direction = s['ns'], s['direction']
    if len(ns) == 1:
        if direction is None or direction == d:
            return ns[0]
        return 0
    return ns[d] if d < len(ns) else 0


# ----------------------------------------------------------------------------------------------
# classification / coverage

def _small_periodic(o, dirs):
    for d in dirs:
        if d < len(o['bases']):
            t = Track(o['bases'][d])
            if t.k >= 0 and t.n < t.p + t.k:
                return True
    return False


def classify(s, res=None):
    """No known-finding classes are left for C04: `periodic-insert-end-indexerror` (fixed by the end clamp
    `mu = min(mu, len(knots) - p)`) and `periodic-small-basis-geometry` (fixed by the cover branch of
    `insert_knot` for n < p+k) cannot occur any more."""
    return None


def tags(s, res):
    if s['kind'] in ('shared', 'sphere', 'split'):
        k = s['kind']
        out = ['kind=' + k, 'aliasing']
        if k == 'shared':
            out += ['shared:' + s['op'], 'shared:pardim=%d' % s['pardim']] + (['rational'] if s['rational'] else [])
        elif k == 'sphere':
            out += ['sphere:dir=%d' % s['dir'], 'rational']
        else:
            out += ['split:pieces-touched=%d' % len({st['piece'] for st in s['steps']}), 'split:pardim=%d' % len(s['obj']['bases'])]
            out += sorted({'split:' + st['op'] for st in s['steps']})
            if len({st['piece'] for st in s['steps']}) >= 2:
                out.append('split:multi-piece')
        if isinstance(res.get('impl'), Err):
            out.append('raises=' + res['impl'].kind)
        return out
    k = s['kind']
    out = ['kind=' + k]
    if k == 'basis':
        t = Track(s['basis'])
        x = s['x']
        out.append('periodic-dir' if t.k >= 0 else 'open-dir')
        out.append('p=%d' % t.p)
        if t.k >= 0:
            if x == t.start:
                out.append('periodic-seam')
            if x == t.end:
                out.append('periodic-end')
            if x < t.start or x > t.end:
                out.append('periodic-outside')
            if t.n < t.p + t.k:
                out.append('periodic-min-size')
        elif not t.in_domain(x):
            out.append('out-of-domain')
        elif not t.clamped:
            out.append('non-clamped')
        if t.in_domain(x):
            m = t.mult(x)
            if m:
                out.append('existing-knot')
            if m + 1 == t.p:
                out.append('to-mult-p')
            if m + 1 > t.p:
                out.append('beyond-mult')
        if isinstance(res.get('impl'), Err):
            out.append('raises=' + res['impl'].kind)
        return out
    o = s['obj']
    pd = len(o['bases'])
    out.append('pardim=%d' % pd)
    if o['rational']:
        out.append('rational')
    for b in o['bases']:
        t = Track(b)
        if t.k >= 0 and t.n < t.p + t.k:
            out.append('periodic-min-size')
        ks = [x for x in b['knots'] if t.start < x < t.end]
        if any(ks.count(x) >= 2 for x in ks):
            out.append('interior-mult>=2')
    if k == 'history':
        _, _, flags = _walk(s)
        out += sorted(flags)
        if any(st['scalar'] and len(st['knots']) == 1 for st in s['steps']):
            out.append('scalar-insert')
        if any(not st['scalar'] and len(st['knots']) > 1 for st in s['steps']):
            out.append('list-insert')
        if len({st['dir'] for st in s['steps']}) > 1:
            out.append('multi-direction')
    else:
        dirs = range(pd) if k == 'refine' else [s['dir']]
        for d in dirs:
            if d < pd:
                out.append('periodic-dir' if o['bases'][d]['periodic'] >= 0 else 'open-dir')
        if k == 'refine':
            if len(s['ns']) == 1 and s['direction'] is None:
                out.append('refine=all')
            elif len(s['ns']) == 1:
                out.append('refine=one-dir')
            else:
                out.append('refine=per-dir')
        else:
            if k == 'geometric' and s['reverse']:
                out.append('geometric-reverse')
            d = s['dir']
            if d < pd and s['n'] > 0:
                t = Track(o['bases'][d])
                if t.k >= 0 and t.n >= t.p + t.k + 1:
                    what = ('geometric:reverse' if s['reverse'] else 'geometric:forward') if k == 'geometric' else k
                    out.append(what + '@periodic-dir')
                    out.append(what + '@periodic-dir,pardim=%d' % pd)
    if isinstance(res.get('impl'), Err):
        out.append('raises=' + res['impl'].kind)
    out = list(dict.fromkeys(out))
    return out


def nontrivial(s, res):
    if isinstance(res.get('impl'), Err):
        return False
    s = _as_plain(s)
    if s['kind'] == 'refine':
        return any(n > 0 for n in s['ns'])
    return True
