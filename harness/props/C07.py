"""C07 — splitting yields exact restrictions tiling the object; appending re-joins them.

Correspondence: `SplineObject.split` (continuity lookup, insertion up to multiplicity p, periodic
branch with roll / ghost removal / recursion, non-periodic slicing, return type), `Curve.append`
(equal orders; differing orders are outside the model and only checked by the oracle),
`refinement.subdivide` and `_splitvector` versus the Lean model (`Model/Split.lean`): knot vectors and
control points of every piece are compared literally.
Oracle (model independent): number of pieces, piece domains tile the original domain (periodic: one
period from the first split point, a single point gives one open OBJECT), every piece is
non-periodic in the split direction and evaluates — p+1 points per span plus the knots from the
inward sides — to the ORIGINAL object (exact Fraction NURBS sums of the original spec);
split-then-append and subdivide reproduce the original map.
Aliasing families (objects from the library's internal `raw=True` constructor path): `alias_split` — an
object whose directions were built from ONE BSplineBasis instance (Surface(b,b,..,raw=True),
Volume(b,b,b,..,raw=True), volume_factory.sphere(type='square')) is split in one direction; `sibling` —
split / subdivide an object, apply one in-place operation (reverse, reparam, insert_knot, refine) to ONE
piece in another direction, and re-check the SIBLING pieces.  Every piece, before and after the
sibling's mutation, must be the exact restriction of the ORIGINAL map (ExactObj of the spec); any
exception raised inside the experiment is a failure.  Correspondence: the existing `c07_split` /
`c07_subdivide` ops on the alias-free spec (the real result, siblings after the mutation, must still be it).
"""
from fractions import Fraction as F
import importlib
import itertools

import numpy as np

from vlib import gen, exact
from vlib.val import line
from vlib.compare import diff, Err

ID = 'C07'
PYOBJECT_METHODS = ['lower_periodic', 'make_periodic', 'make_periodic_c', 'split']   # splineobject.py methods re-translated and proved equal to the hand model each run
# theorems of this property stated for the object evaluator `Obj.evaluate` (bridge through C02)
EXTRA_THEOREMS = [('Splipy.Properties.Bridge', 'Splipy/Properties/Bridge.lean', 'Bridge_C07_')]
RTOL = 1e-9
ATOL = 1e-11
RULE = ('objects: pardim 1-3, rational or not, open / non-open / periodic bases (incl. small highly continuous periodic ones), '
        'every direction and spelling; split sets: interior knots of every multiplicity, points between knots, several increasing '
        'points, unordered / duplicate / end-point / outside / empty inputs, scalar argument; append: random pairs (equal orders '
        'modelled), consecutive pieces in both association orders, raised pieces; subdivide: scalar and per-direction counts; '
        '_splitvector grid.  non-trivial = the property makes a claim (valid increasing interior split set, or a round trip).')
REQUIRED_TAGS = ['split', 'split:periodic-single', 'split:periodic-multi', 'split:open', 'split:at-knot', 'split:between-knots',
                 'split:mult>=2', 'split:unordered', 'split:duplicate', 'split:endpoint', 'split:outside', 'split:scalar', 'split:empty',
                 'split:dir>0', 'split:bad-direction', 'rational', 'pardim=1', 'pardim=2', 'pardim=3', 'periodic-small',
                 'append', 'append:periodic-error', 'append:orders-differ', 'split_append', 'split_append:periodic', 'subdivide',
                 'subdivide:periodic', 'splitvector',
                 'alias_split', 'alias_split:shared', 'alias_split:sphere', 'alias_split:pardim=2', 'alias_split:pardim=3',
                 'sibling', 'sibling:split', 'sibling:subdivide', 'sibling:reverse', 'sibling:reparam', 'sibling:insert',
                 'sibling:refine', 'sibling:pardim=2', 'sibling:pardim=3']

TOLF = F(1, 10 ** 10)
SPELL = {0: [0, 'u', 'U'], 1: [1, 'v', 'V'], 2: [2, 'w', 'W']}


# ---------------------------------------------------------------------------------------------
# exact evaluation of a spec by the definition (shared with C08)

class ExactObj:
    """The NURBS definition of an object spec in exact Fractions.  Rows follow `exact.basis_row`
    (effective point / side rules, wrapped images of a periodic basis) but call Cox–de Boor only for
    the functions whose support contains the point (the others are zero by local support)."""

    def __init__(self, o):
        self.o = o
        self.bases = o['bases']
        self.taus = [exact.frs(b['knots']) for b in o['bases']]
        cps = np.array(o['cps'], dtype=float)
        fc = np.empty(cps.shape, dtype=object)
        for idx in np.ndindex(cps.shape):
            fc[idx] = F(float(cps[idx]))
        self.fc = fc
        self._rows = {}

    def row(self, k, t, d=0, right=True):
        key = (k, t, d, right)
        if key in self._rows:
            return self._rows[key]
        b = self.bases[k]
        tau = self.taus[k]
        p, per = b['order'], b['periodic']
        t = exact.fr(t)
        n_all = len(tau) - p
        n = n_all - (per + 1)
        start, end = tau[p - 1], tau[n_all]
        for x in tau:
            if abs(x - t) < TOLF:
                t = x
                break
        if per >= 0:
            if t < start or t > end:
                T = end - start
                t = (t - start) % T + start
            if t == start and not right:
                t = end
        if t == end:
            right = False
        row = [F(0)] * n
        if not (t < start or t > end or (t == start and not right)) and d < p:
            for i in range(n_all):
                if tau[i] <= t <= tau[i + p]:
                    v = exact.dB(tau, p - 1, i, d, t, right)
                    if v:
                        row[i % n] += v
        self._rows[key] = row
        return row

    def hom(self, params, derivs=None, rights=None):
        pd = len(self.bases)
        derivs = derivs or [0] * pd
        rights = rights or [True] * pd
        rows = [self.row(k, params[k], derivs[k], rights[k]) for k in range(pd)]
        nz = [[(i, v) for i, v in enumerate(r) if v] for r in rows]
        ncomp = self.fc.shape[-1]
        out = [F(0)] * ncomp
        for combo in itertools.product(*nz):
            w = F(1)
            for _, v in combo:
                w *= v
            idx = tuple(i for i, _ in combo)
            for c in range(ncomp):
                out[c] += w * self.fc[idx + (c,)]
        return out

    def point(self, params, rights=None):
        h = self.hom(params, None, rights)
        if self.o['rational']:
            return [x / h[-1] for x in h[:-1]]
        return h


def span_points(knots, start, end, per_span):
    """Distinct knots in [start, end] and `per_span` interior points of every span between them."""
    ks = []
    for x in knots:
        if start - gen.TOL <= x <= end + gen.TOL and (not ks or abs(x - ks[-1]) > gen.TOL):
            ks.append(float(x))
    pts = []
    for a, b in zip(ks[:-1], ks[1:]):
        pts.append((a, 'knot'))
        for j in range(per_span):
            pts.append((a + (b - a) * (j + 1) / (per_span + 1), 'in'))
    pts.append((ks[-1], 'knot'))
    return pts


def check_piece(ex, piece, d, lo, hi, what, thin=False, periodic=-1):
    """`piece` (real object) must have periodicity `periodic` (default: none) in direction d, have
    domain [lo, hi] there (skipped when lo is None) and the other directions' domains unchanged, and
    evaluate to the original (ExactObj `ex`) on it."""
    fails = []
    o = ex.o
    pd = len(o['bases'])
    if piece.pardim != pd:
        return ['%s: parametric dimension changed' % what]
    b = piece.bases[d]
    if periodic is not None and b.periodic != periodic:
        fails.append('%s has periodicity %d in direction %d, expected %d' % (what, b.periodic, d, periodic))
    if lo is not None:
        sc = max(1.0, abs(lo), abs(hi))
        if abs(piece.start(d) - lo) > 1e-9 * sc or abs(piece.end(d) - hi) > 1e-9 * sc:
            fails.append('%s has domain [%r, %r] in direction %d, expected [%r, %r]' % (what, piece.start(d), piece.end(d), d, lo, hi))
            return fails
    params, rights = [], []
    for k in range(pd):
        pb = piece.bases[k]
        if k == d:
            pts = [t for t, _ in span_points(pb.knots, pb.start(), pb.end(), 1 if thin else pb.order + 1)]
            params.append(pts)
        else:
            info = gen.basis_info(o['bases'][k])
            if abs(pb.start() - info['start']) > 1e-9 or abs(pb.end() - info['end']) > 1e-9:
                fails.append('%s: domain of direction %d changed' % (what, k))
                return fails
            ks = [t for t, _ in span_points(pb.knots, pb.start(), pb.end(), 1)]
            params.append(sorted({ks[0], ks[1], ks[-1]}))
    try:
        res = np.asarray(piece.evaluate(*params))
    except Exception as e:  # noqa: BLE001
        return ['%s cannot be evaluated on its own domain: %s: %s' % (what, type(e).__name__, e)]
    shape = tuple(len(p) for p in params) + (piece.dimension,)
    try:
        res = res.reshape(shape)
    except ValueError:
        return ['%s: evaluation returned shape %s' % (what, res.shape)]
    pend = piece.end(d)
    for idx in itertools.product(*[range(len(p)) for p in params]):
        u = [params[k][idx[k]] for k in range(pd)]
        rts = [True] * pd
        if u[d] == pend:
            rts[d] = False         # the inward side at the piece's end
        want = ex.point(u, rts)
        if not exact.close(res[idx], want, RTOL, 1e-10):
            fails.append('%s at %r is %r, the original object gives %r' % (what, u, res[idx].tolist(), [float(x) for x in want]))
            break
    return fails


# ---------------------------------------------------------------------------------------------
# generation

def _cands(rng, b):
    """(knot values with multiplicity >=1 strictly inside the domain, values between knots)."""
    info = gen.basis_info(b)
    ks = [x for x in gen.distinct_knots(b) if info['start'] <= x <= info['end']]
    inner = [x for x in ks if info['start'] < x < info['end']]
    between = []
    for x, y in zip(ks[:-1], ks[1:]):
        between.append(x + (y - x) * rng.choice([0.5, 0.25, 0.75, 0.125]))
    return inner, between


def _mult(b, x):
    return sum(1 for y in b['knots'] if abs(y - x) < gen.TOL)


def _split_specs(rng, o, tier):
    specs = []
    pd = len(o['bases'])
    for _ in range(2 if tier == 'quick' else 4):
        d = rng.randrange(pd)
        b = o['bases'][d]
        info = gen.basis_info(b)
        T = info['end'] - info['start']
        inner, between = _cands(rng, b)
        per = b['periodic'] >= 0
        pool = sorted(set(inner + between))
        forms = ['one-knot', 'one-between', 'multi', 'multi', 'unordered', 'duplicate', 'endpoint', 'outside', 'scalar', 'empty',
                 'badir', 'seam']
        for form in rng.sample(forms, 5 if tier == 'quick' else 9):
            spell = rng.choice(SPELL[d]) if rng.random() < 0.3 else d
            s = {'kind': 'split', 'obj': o, 'dir': d, 'spell': spell, 'scalar': False, 'form': form}
            if form == 'one-knot':
                if not inner:
                    continue
                s['knots'] = [rng.choice(inner)]
            elif form == 'one-between':
                s['knots'] = [rng.choice(between)]
            elif form == 'multi':
                m = rng.randint(2, 3)
                if per:
                    k0 = rng.choice(pool + [info['start']])
                    later = sorted({x if x > k0 else x + T for x in pool if x != k0})
                    later = [x for x in later if k0 < x < k0 + T]
                    if not later:
                        continue
                    s['knots'] = [k0] + sorted(rng.sample(later, min(m, len(later))))
                else:
                    if len(pool) < 2:
                        continue
                    s['knots'] = sorted(rng.sample(pool, min(m, len(pool))))
            elif form == 'unordered':
                if len(pool) < 2:
                    continue
                ks = sorted(rng.sample(pool, 2))
                s['knots'] = [ks[1], ks[0]] + ([rng.choice(pool)] if rng.random() < 0.3 else [])
            elif form == 'duplicate':
                x = rng.choice(pool)
                s['knots'] = [x, x]
            elif form == 'endpoint':
                s['knots'] = rng.choice([[info['start']], [info['end']], [info['start'], rng.choice(pool)],
                                         [rng.choice(pool), info['end']], [info['start'], info['end']]])
            elif form == 'outside':
                x = rng.choice(pool)
                s['knots'] = rng.choice([[x - T], [x + T], [info['start'] - 0.25 * T], [info['end'] + 0.5 * T], [x + 2 * T]])
            elif form == 'scalar':
                s['knots'] = [rng.choice(pool)]
                s['scalar'] = True
            elif form == 'empty':
                s['knots'] = []
            elif form == 'badir':
                s['knots'] = [rng.choice(pool)]
                s['dir'] = pd
                s['spell'] = rng.choice([pd, 7])
            elif form == 'seam':
                if not per:
                    continue
                s['knots'] = [info['start']]
            specs.append(s)
    return specs


def _small_periodic_curve(rng, dim=2):
    p = rng.randint(3, 6)
    k = rng.choice([p - 2, p - 2, max(0, p - 3)])
    b = gen.periodic_basis(rng, p, k, n_interior=rng.choice([0, 1, 1, 2, 3]), max_mult=1)
    n = gen.basis_info(b)['n']
    rational = rng.random() < 0.3
    return {'bases': [b], 'cps': gen.rand_cps(rng, [n], dim + rational, rational), 'rational': bool(rational)}


def _curve(rng, p=None, periodic=False, dim=None, rational=None, clamped=True, n_interior=None):
    p = p or rng.randint(1, 5)
    if periodic and p >= 2:
        b = gen.periodic_basis(rng, p, rng.randint(0, p - 2), n_interior=rng.randint(1, 4))
    else:
        b = gen.open_basis(rng, p, n_interior=n_interior, clamped=clamped)
    n = gen.basis_info(b)['n']
    dim = dim or rng.choice([2, 2, 3])
    rational = (rng.random() < 0.4) if rational is None else rational
    return {'bases': [b], 'cps': gen.rand_cps(rng, [n], dim + rational, rational), 'rational': bool(rational)}


def _valid_split_set(rng, o, d=0, maxm=3):
    b = o['bases'][d]
    info = gen.basis_info(b)
    T = info['end'] - info['start']
    inner, between = _cands(rng, b)
    pool = sorted(set(inner + between))
    m = rng.randint(1, maxm)
    if b['periodic'] >= 0:
        k0 = rng.choice(pool + [info['start']])
        later = sorted({x if x > k0 else x + T for x in pool if x != k0})
        later = [x for x in later if k0 < x < k0 + T]
        return [k0] + sorted(rng.sample(later, min(m - 1, len(later))))
    return sorted(rng.sample(pool, min(m, len(pool))))


def generate(rng, tier):
    specs = []
    quick = tier == 'quick'
    # --- split on general objects
    nobj = 54 if quick else 700
    for oi in range(nobj):
        pardim = [1, 2, 1, 3, 2, 1][oi % 6]
        o = gen.rand_object(rng, pardim=pardim, pmax=4 if pardim < 3 else 3, periodic_prob=0.4,
                            max_interior=3 if pardim < 3 else 2, max_mult=None)
        specs += _split_specs(rng, o, tier)
    # --- non-open (unclamped) curves
    for _ in range(8 if quick else 80):
        o = _curve(rng, p=rng.randint(2, 4), clamped=False, n_interior=rng.randint(1, 3))
        specs += _split_specs(rng, o, tier)[:4]
    # --- small, highly continuous periodic curves
    for _ in range(30 if quick else 400):
        o = _small_periodic_curve(rng)
        specs += _split_specs(rng, o, tier)[:4]
        specs.append({'kind': 'split_append', 'obj': o, 'knots': _valid_split_set(rng, o), 'assoc': 'left'})
    # --- append: random pairs
    for _ in range(40 if quick else 500):
        r = rng.random()
        p = rng.randint(1, 4)
        a = _curve(rng, p=p, periodic=(r < 0.08))
        c = _curve(rng, p=p if r < 0.85 else rng.randint(1, 5), periodic=(0.08 <= r < 0.16))
        specs.append({'kind': 'append', 'a': a, 'c': c})
    # --- split, then append the pieces again (both association orders), raised pieces
    for i in range(50 if quick else 600):
        o = _curve(rng, p=rng.randint(2, 5) if i % 4 else rng.randint(1, 2), periodic=(i % 3 == 0), n_interior=rng.randint(1, 4),
                   clamped=(i % 7 != 1))
        b0 = o['bases'][0]
        smooth = all(_mult(b0, x) < b0['order'] for x in _cands(rng, b0)[0])
        specs.append({'kind': 'split_append', 'obj': o, 'knots': _valid_split_set(rng, o), 'assoc': rng.choice(['left', 'right']),
                      'raise': (i % 10 == 9 and i % 7 != 1 and smooth)})   # raised pieces only on clamped curves (raise_order itself is C05's subject)
    # --- subdivide
    for i in range(36 if quick else 400):
        pardim = [1, 2, 1, 2, 3, 1][i % 6]
        o = gen.rand_object(rng, pardim=pardim, pmax=4 if pardim < 3 else 3, periodic_prob=0.3,
                            max_interior=4 if pardim < 3 else 2, max_mult=2)
        n = rng.choice([0, 1, 1, 2, 3]) if rng.random() < 0.5 else [rng.choice([0, 1, 2, 3]) for _ in range(pardim)]
        specs.append({'kind': 'subdivide', 'objs': [o], 'n': n})
    specs += _aliasing_specs(rng, quick)
    # --- _splitvector
    for ln in range(0, 13 if quick else 40):
        for parts in range(1, 9 if quick else 20):
            if quick and (ln * 7 + parts) % 3:
                continue
            specs.append({'kind': 'splitvector', 'len': ln, 'parts': parts})
    return specs



BEZ5 = {'order': 5, 'knots': [0.0] * 5 + [1.0] * 5, 'periodic': -1}     # the basis of volume_factory.sphere(type='square')


def _between(rng, b):
    """A value strictly inside the domain of basis spec `b`, between two knots."""
    info = gen.basis_info(b)
    ks = sorted(set(x for x in b['knots'] if info['start'] <= x <= info['end']))
    i = rng.randrange(len(ks) - 1)
    return ks[i] + (ks[i + 1] - ks[i]) * rng.choice([0.25, 0.5, 0.625])


def _aliasing_specs(rng, quick):
    """Objects from the `raw=True` constructor path (several directions / several pieces may hold the same
    BSplineBasis instance): the property must hold for them as for any object."""
    out = []
    # (1) one basis instance used for all directions, split in one of them
    for i in range(14 if quick else 150):
        pd = 2 if i % 3 else 3
        p = rng.randint(2, 4 if pd == 2 else 3)
        b = gen.open_basis(rng, p, n_interior=rng.randint(0, 2))
        n = gen.basis_info(b)['n']
        rational = bool(i % 4 == 1)
        cps = gen.rand_cps(rng, [n] * pd, 3 + (1 if rational else 0), rational)
        d = rng.randrange(pd)
        plain = {'bases': [b] * pd, 'cps': cps, 'rational': rational}
        out.append({'kind': 'alias_split', 'how': 'shared', 'obj': plain, 'dir': d, 'knots': _valid_split_set(rng, plain, d, maxm=2)})
    for i in range(3 if quick else 9):
        out.append({'kind': 'alias_split', 'how': 'sphere', 'r': rng.choice([1.0, 2.0, 0.5]),
                    'center': [rng.choice([0.0, 1.0, -2.0]) for _ in range(3)], 'dir': i % 3,
                    'knots': [rng.choice([0.37, 0.5, 0.25, 0.625])]})
    # (2) split / subdivide, mutate ONE piece in another direction, re-check the siblings
    for i in range(24 if quick else 260):
        pd = 2 if i % 4 else 3
        o = gen.rand_object(rng, pardim=pd, pmax=4 if pd == 2 else 3, periodic_prob=0.0, max_interior=2, max_mult=2,
                            rational=bool(i % 3 == 1), pmin=2)
        via = 'subdivide' if i % 6 == 5 else 'split'
        sd = rng.randrange(pd)
        d2 = rng.choice([q for q in range(pd) if q != sd])
        name = ['reverse', 'reparam', 'insert', 'refine'][i % 4]
        op = {'name': name, 'dir': d2}
        if name == 'reparam':
            a = rng.choice([0.0, -1.0, 0.5])
            op['to'] = [a, a + rng.choice([2.0, 0.5, 3.0])]
        elif name == 'insert':
            op['x'] = _between(rng, o['bases'][d2])
        elif name == 'refine':
            op['n'] = rng.randint(1, 2)
        sp_ = {'kind': 'sibling', 'via': via, 'obj': o, 'op': op, 'which': 0 if i % 2 else -1}
        if via == 'split':
            sp_['dir'] = sd
            sp_['knots'] = _valid_split_set(rng, o, sd, maxm=3)
        else:
            n = [0] * pd
            n[sd] = rng.randint(1, 2)
            if pd == 3 and i % 12 == 11:
                n[[q for q in range(pd) if q not in (sd, d2)][0]] = 1
            sp_['n'] = n
        out.append(sp_)
    return out


def _as_plain(s):
    """The ordinary (alias-free) spec whose correspondence the aliasing kinds reuse."""
    k = s['kind']
    if k == 'alias_split':
        if s['how'] == 'sphere':   # the control net of the ball is the library's; correspondence on its basis only
            return {'kind': 'split', 'obj': {'bases': [BEZ5], 'cps': [[float(i), float(i * i)] for i in range(5)], 'rational': False},
                    'dir': 0, 'knots': list(s['knots'])}
        return {'kind': 'split', 'obj': s['obj'], 'dir': s['dir'], 'knots': list(s['knots'])}
    if k == 'sibling':
        if s['via'] == 'split':
            return {'kind': 'split', 'obj': s['obj'], 'dir': s['dir'], 'knots': list(s['knots'])}
        return {'kind': 'subdivide', 'objs': [s['obj']], 'n': list(s['n'])}
    return s


# ---------------------------------------------------------------------------------------------
# model / implementation

def _nlist(s):
    pd = len(s['objs'][0]['bases'])
    n = s['n']
    if isinstance(n, list):
        n = list(n)
        while len(n) < pd:
            n.append(n[-1])
        return n
    return [n] * pd


def model_line(s):
    s = _as_plain(s)
    k = s['kind']
    if k == 'split':
        return line('c07_split', gen.enc_object(s['obj']), gen.TOL, s['knots'], s['dir'])
    if k == 'append':
        return line('c07_append', gen.enc_object(s['a']), gen.enc_object(s['c']), gen.TOL)
    if k == 'split_append':
        if s.get('raise'):
            return line('c07_append', gen.enc_object(_curve_p(1)), gen.enc_object(_curve_p(2)), gen.TOL)   # -> unmodelled
        return line('c07_split_append', gen.enc_object(s['obj']), gen.TOL, s['knots'])
    if k == 'subdivide':
        return line('c07_subdivide', [gen.enc_object(o) for o in s['objs']], gen.TOL, _nlist(s))
    if k == 'splitvector':
        return line('c07_splitvector', s['len'], s['parts'])
    raise AssertionError(k)


def _curve_p(p):
    return {'bases': [{'order': p, 'knots': [0.0] * p + [1.0] * p, 'periodic': -1}], 'cps': [[float(i), 0.0] for i in range(p)], 'rational': False}


def _split(sp, s, o=None):
    o = o if o is not None else gen.mk_object(sp, s['obj'])
    arg = s['knots'][0] if s.get('scalar') else list(s['knots'])
    return o.split(arg, direction=s.get('spell', s.get('dir', 0)))


def _append_all(pieces, assoc):
    pieces = [p.clone() for p in pieces]
    if assoc == 'right':
        acc = pieces[-1]
        for p in reversed(pieces[:-1]):
            p.append(acc)
            acc = p
        return acc
    acc = pieces[0]
    for p in pieces[1:]:
        acc.append(p)
    return acc


def _split_append(sp, s):
    o = gen.mk_object(sp, s['obj'])
    r = o.split(list(s['knots']), 0)
    pieces = r if isinstance(r, list) else [r]
    if s.get('raise'):
        try:
            pieces[len(pieces) // 2].raise_order(1)
        except Exception:  # noqa: BLE001 - order raising is property C05's subject, not this one's
            raise _NoClaim()
        if not np.all(np.isfinite(pieces[len(pieces) // 2].controlpoints)):
            raise _NoClaim()    # raise_order returned NaN control points (C05/C10: singular interpolation on C^-1 pieces)
    return _append_all(pieces, s.get('assoc', 'left'))


class _NoClaim(Exception):
    pass


def _subdivide(sp, s):
    ref = importlib.import_module(sp.__name__ + '.utils.refinement')
    return ref.subdivide([gen.mk_object(sp, o) for o in s['objs']], s['n'])


def _obs(sp, x):
    if isinstance(x, sp.SplineObject):
        return gen.obj_observables(x)
    return 'not-a-spline-object:%s' % type(x).__name__


def _mk_aliased(sp, s):
    """The object of an `alias_split` spec, built the way the library builds it internally."""
    if s['how'] == 'sphere':
        vf = importlib.import_module(sp.__name__ + '.volume_factory')
        return vf.sphere(r=s['r'], center=tuple(s['center']), type='square')
    o = s['obj']
    b = gen.mk_basis(sp, o['bases'][0])                       # ONE instance for every direction
    cls = {2: sp.Surface, 3: sp.Volume}[len(o['bases'])]
    return cls(*([b] * len(o['bases'])), np.array(o['cps'], dtype=float), o['rational'], raw=True)


def _apply_op(piece, op):
    n, d = op['name'], op['dir']
    if n == 'reverse':
        piece.reverse(d)
    elif n == 'reparam':
        piece.reparam(tuple(op['to']), direction=d)
    elif n == 'insert':
        piece.insert_knot(op['x'], d)
    elif n == 'refine':
        piece.refine(op['n'], direction=d)
    else:
        raise AssertionError(n)


def _sibling_pieces(sp, s):
    """(pieces, index of the piece that will be mutated)."""
    if s['via'] == 'split':
        pieces = gen.mk_object(sp, s['obj']).split(list(s['knots']), s['dir'])
    else:
        pieces = _subdivide(sp, {'objs': [s['obj']], 'n': list(s['n'])})
    if not isinstance(pieces, list):
        raise AssertionError('split did not return a list')
    return pieces, s['which'] % len(pieces)


def run_impl(sp, s):
    k = s['kind']
    if k == 'alias_split':
        if s['how'] == 'sphere':
            return run_impl(sp, _as_plain(s))
        r = _mk_aliased(sp, s).split(list(s['knots']), s['dir'])
        return ['many', [_obs(sp, x) for x in r]] if isinstance(r, list) else ['single', [_obs(sp, r)]]
    if k == 'sibling':
        pieces, w = _sibling_pieces(sp, s)
        before = _obs(sp, pieces[w])
        _apply_op(pieces[w], s['op'])
        obs = [before if i == w else _obs(sp, x) for i, x in enumerate(pieces)]     # the siblings AFTER the mutation
        return ['many', obs] if s['via'] == 'split' else obs
    if k == 'split':
        r = _split(sp, s)
        if isinstance(r, list):
            return ['many', [_obs(sp, x) for x in r]]
        return ['single', [_obs(sp, r)]]
    if k == 'append':
        a = gen.mk_object(sp, s['a'])
        c = gen.mk_object(sp, s['c'])
        r = a.append(c)
        return _obs(sp, r)
    if k == 'split_append':
        return _obs(sp, _split_append(sp, s))
    if k == 'subdivide':
        return [_obs(sp, x) for x in _subdivide(sp, s)]
    if k == 'splitvector':
        ref = importlib.import_module(sp.__name__ + '.utils.refinement')
        return [int(i) for i in ref._splitvector(s['len'], s['parts'])]
    raise AssertionError(k)


def compare(s, iv, mv):
    if isinstance(mv, str) and mv == 'unmodelled':
        return None        # differing orders / raised pieces: outside the model, oracle only
    return diff(iv, mv, RTOL, ATOL)


# ---------------------------------------------------------------------------------------------
# the property

def split_claim(s):
    """Expected sub-intervals if the property makes a claim for this split request, else None.
    Returns (single, [(lo, hi), ...])."""
    if s['dir'] >= len(s['obj']['bases']):
        return None
    b = s['obj']['bases'][s['dir']]
    info = gen.basis_info(b)
    ks = s['knots']
    if not ks:
        return None
    if any(y - x <= gen.TOL for x, y in zip(ks[:-1], ks[1:])):
        return None
    if b['periodic'] >= 0:
        T = info['end'] - info['start']
        if not all(ks[0] < x < ks[0] + T for x in ks[1:]):
            return None
        bounds = list(ks) + [ks[0] + T]
        return (len(ks) == 1, list(zip(bounds[:-1], bounds[1:])))
    if not all(info['start'] + gen.TOL < x < info['end'] - gen.TOL for x in ks):
        return None
    bounds = [info['start']] + list(ks) + [info['end']]
    return (False, list(zip(bounds[:-1], bounds[1:])))


def _alias_oracle(sp, s):
    try:
        if s['how'] == 'sphere':
            ref = gen.spec_of_object(_mk_aliased(sp, s))       # snapshot of a fresh, untouched ball
        else:
            ref = s['obj']
        obj = _mk_aliased(sp, s)
        info = gen.basis_info(ref['bases'][s['dir']])
        r = obj.split(list(s['knots']), s['dir'])
    except Exception as e:  # noqa: BLE001
        return ['split of an object built from one basis instance raised %s: %s' % (type(e).__name__, e)]
    if not isinstance(r, list):
        return ['split did not return a list']
    bounds = [info['start']] + list(s['knots']) + [info['end']]
    if len(r) != len(bounds) - 1:
        return ['split returned %d pieces, expected %d' % (len(r), len(bounds) - 1)]
    ex = ExactObj(ref)
    for i, pc in enumerate(r):
        f = check_piece(ex, pc, s['dir'], bounds[i], bounds[i + 1], 'piece %d (bases from one instance)' % i, thin=True)
        if f:
            return f
        for q in range(len(ref['bases'])):
            if q != s['dir'] and len(pc.bases[q].knots) != len(ref['bases'][q]['knots']):
                return ['piece %d: splitting direction %d changed the knot vector of direction %d' % (i, s['dir'], q)]
    return []


def _sibling_oracle(sp, s):
    o = s['obj']
    ex = ExactObj(o)
    try:
        pieces, w = _sibling_pieces(sp, s)
    except Exception as e:  # noqa: BLE001
        return ['%s raised %s: %s' % (s['via'], type(e).__name__, e)]
    if s['via'] == 'split':
        info = gen.basis_info(o['bases'][s['dir']])
        bounds = [info['start']] + list(s['knots']) + [info['end']]
        if len(pieces) != len(bounds) - 1:
            return ['split returned %d pieces, expected %d' % (len(pieces), len(bounds) - 1)]

    def chk(i, pc, when):
        if s['via'] == 'split':
            return check_piece(ex, pc, s['dir'], bounds[i], bounds[i + 1], 'piece %d %s' % (i, when), thin=True)
        return _check_block(ex, pc, 'block %d %s' % (i, when))

    for i, pc in enumerate(pieces):
        f = chk(i, pc, 'right after %s' % s['via'])
        if f:
            return f
    doms = [[(pc.start(q), pc.end(q)) for q in range(pc.pardim)] for pc in pieces]
    try:
        _apply_op(pieces[w], s['op'])
    except Exception as e:  # noqa: BLE001
        return ['%s of piece %d raised %s: %s' % (s['op']['name'], w, type(e).__name__, e)]
    what = 'after %s of its sibling %d in direction %d' % (s['op']['name'], w, s['op']['dir'])
    for i, pc in enumerate(pieces):
        if i == w:
            continue
        now = [(pc.start(q), pc.end(q)) for q in range(pc.pardim)]
        if now != doms[i]:
            return ['piece %d %s has domain %r, it had %r' % (i, what, now, doms[i])]
        f = chk(i, pc, what)
        if f:
            return f
    return []


def oracle(sp, s):
    k = s['kind']
    if k == 'alias_split':
        return _alias_oracle(sp, s)
    if k == 'sibling':
        return _sibling_oracle(sp, s)
    if k == 'split':
        claim = split_claim(s)
        if claim is None:
            return []
        single, ivals = claim
        try:
            r = _split(sp, s)
        except Exception as e:  # noqa: BLE001
            return ['split at interior parameters %r raised %s: %s' % (s['knots'], type(e).__name__, e)]
        if single:
            if isinstance(r, list):
                return ['single split point in a periodic direction returned a list']
            pieces = [r]
        else:
            if not isinstance(r, list):
                return ['split did not return a list']
            pieces = r
        if len(pieces) != len(ivals):
            return ['split returned %d pieces, expected %d' % (len(pieces), len(ivals))]
        ex = ExactObj(s['obj'])
        fails = []
        for i, (pc, (lo, hi)) in enumerate(zip(pieces, ivals)):
            fails += check_piece(ex, pc, s['dir'], lo, hi, 'piece %d' % i, thin=len(s['obj']['bases']) == 3)
            if fails:
                break
        return fails
    if k == 'split_append':
        try:
            r = _split_append(sp, s)
        except _NoClaim:
            return []
        except Exception as e:  # noqa: BLE001
            return ['split + append raised %s: %s' % (type(e).__name__, e)]
        info = gen.basis_info(s['obj']['bases'][0])
        lo = s['knots'][0] if s['obj']['bases'][0]['periodic'] >= 0 else info['start']
        return check_piece(ExactObj(s['obj']), r, 0, lo, lo + (info['end'] - info['start']), 'appended pieces')
    if k == 'subdivide':
        o = s['objs'][0]
        try:
            r = _subdivide(sp, s)
        except Exception as e:  # noqa: BLE001
            return ['subdivide raised %s: %s' % (type(e).__name__, e)]
        if not isinstance(r, list) or any(not isinstance(x, sp.SplineObject) for x in r):
            return ['subdivide returned something that is not a list of spline objects']
        ex = ExactObj(o)
        pd = len(o['bases'])
        vol = 0.0
        fails = []
        for i, pc in enumerate(r):
            v = 1.0
            for d in range(pd):
                v *= pc.end(d) - pc.start(d)
            vol += v
            fails += _check_block(ex, pc, 'block %d' % i)
            if fails:
                return fails
        want = 1.0
        for b in o['bases']:
            info = gen.basis_info(b)
            want *= info['end'] - info['start']
        if abs(vol - want) > 1e-9 * max(1.0, want):
            fails.append('blocks cover parametric volume %r, the object has %r' % (vol, want))
        return fails
    return []


def _check_block(ex, pc, what):
    """A block returned by subdivide: evaluates to the original on its own domain."""
    o = ex.o
    pd = len(o['bases'])
    params = []
    for d in range(pd):
        b = pc.bases[d]
        if b.periodic != -1 and False:
            return []
        a, e = b.start(), b.end()
        info = gen.basis_info(o['bases'][d])
        if o['bases'][d]['periodic'] < 0 and (a < info['start'] - 1e-9 or e > info['end'] + 1e-9):
            return ['%s leaves the original domain in direction %d' % (what, d)]
        params.append([a, a + (e - a) * 0.375, e])
    try:
        res = np.asarray(pc.evaluate(*params)).reshape(tuple(len(p) for p in params) + (pc.dimension,))
    except Exception as e:  # noqa: BLE001
        return ['%s cannot be evaluated: %s' % (what, e)]
    for idx in itertools.product(*[range(3)] * pd):
        u = [params[k][idx[k]] for k in range(pd)]
        rts = [idx[k] != 2 for k in range(pd)]
        want = ex.point(u, rts)
        if not exact.close(res[idx], want, RTOL, 1e-10):
            return ['%s at %r is %r, the original object gives %r' % (what, u, res[idx].tolist(), [float(x) for x in want])]
    return []


def _small_periodic(o, d=None):
    for i, b in enumerate(o['bases']):
        if d is not None and i != d:
            continue
        info = gen.basis_info(b)
        if info['k'] >= 0 and info['n'] < info['p'] + info['k']:
            return True
    return False


# oracle messages a known class may produce; anything else under the same spec class is NOT that class
_CLASS_MESSAGES = {
    'split-periodic-first-point-outside-base-period': ('raised ValueError: could not broadcast', 'raised IndexError', 'has domain',
                                                       'the original object gives', 'cannot be evaluated'),
    'append-order-1-pieces': ('appended pieces at',),
    'append-at-discontinuous-knot': ('appended pieces at',),
    'subdivide-periodic-direction-without-split': ('subdivide raised IndexError',),
    'subdivide-periodic-direction-single-split': ('subdivide raised', 'not a list of spline objects'),
}


def _spec_class(s):
    k = s['kind']
    if k == 'split':
        if s['dir'] >= len(s['obj']['bases']):
            return None
        b = s['obj']['bases'][s['dir']]
        if b['periodic'] >= 0:
            info = gen.basis_info(b)
            if s['knots'] and not (info['start'] <= s['knots'][0] < info['end']):
                return 'split-periodic-first-point-outside-base-period'
            # (`split-periodic-small-basis`, `split-periodic-point-at-end`: fixed with periodic insert_knot —
            #  cover branch for n < p+k, end clamp — and no longer classes)
        return None
    if k == 'split_append':
        b = s['obj']['bases'][0]
        if b['order'] == 1:
            return 'append-order-1-pieces'
        info = gen.basis_info(b)
        T = info['end'] - info['start']
        for x in s['knots']:
            xs = [x, x - T, x + T] if b['periodic'] >= 0 else [x]
            if any(_mult(b, y) >= b['order'] for y in xs):
                return 'append-at-discontinuous-knot'
        return None
    if k == 'subdivide':
        o = s['objs'][0]
        n = _nlist(s)
        for d, b in enumerate(o['bases']):
            if b['periodic'] >= 0 and n[d] == 0:
                return 'subdivide-periodic-direction-without-split'
            if b['periodic'] >= 0 and n[d] == 1:
                return 'subdivide-periodic-direction-single-split'
        # (`subdivide-periodic-direction`, `split-periodic-small-basis`: fixed with periodic insert_knot)
    return None


def classify(s, res=None):
    """Known-finding class of a case: decided by the spec AND, when the oracle failed, by the failure
    message (a class only covers the symptoms listed for it, so it cannot hide a new kind of failure)."""
    cls = _spec_class(s)
    if cls is None or not res or not res.get('oracle'):
        return cls
    msg = str(res['oracle'][0])
    if any(m in msg for m in _CLASS_MESSAGES.get(cls, ())):
        return cls
    return None


def tags(s, res):
    k = s['kind']
    out = [k]
    if k == 'split':
        o = s['obj']
        pd = len(o['bases'])
        out.append('pardim=%d' % pd)
        if o['rational']:
            out.append('rational')
        if s['dir'] >= pd:
            out.append('split:bad-direction')
            return out
        b = o['bases'][s['dir']]
        info = gen.basis_info(b)
        per = b['periodic'] >= 0
        claim = split_claim(s)
        if claim is not None:
            out.append('split:claim')
            if per:
                out.append('split:periodic-single' if claim[0] else 'split:periodic-multi')
            else:
                out.append('split:open')
        if per and _small_periodic(o, s['dir']):
            out.append('periodic-small')
        if s['dir'] > 0:
            out.append('split:dir>0')
        if isinstance(s.get('spell'), str):
            out.append('split:spelled-direction')
        if s.get('scalar'):
            out.append('split:scalar')
        ks = s['knots']
        if not ks:
            out.append('split:empty')
        if any(y < x for x, y in zip(ks[:-1], ks[1:])):
            out.append('split:unordered')
        if any(y == x for x, y in zip(ks[:-1], ks[1:])):
            out.append('split:duplicate')
        if any(x in (info['start'], info['end']) for x in ks):
            out.append('split:endpoint')
        if any(x < info['start'] or x > info['end'] for x in ks):
            out.append('split:outside')
        for x in ks:
            m = _mult(b, x)
            if m:
                out.append('split:at-knot')
                if m >= 2:
                    out.append('split:mult>=2')
                out.append('split:mult=%d/p=%d' % (m, info['p']))
            else:
                out.append('split:between-knots')
        if isinstance(res['impl'], Err):
            out.append('split:raises-' + res['impl'].kind)
    elif k == 'append':
        if isinstance(res['impl'], Err) and res['impl'].kind == 'RuntimeError':
            out.append('append:periodic-error')
        if s['a']['bases'][0]['order'] != s['c']['bases'][0]['order']:
            out.append('append:orders-differ')
        if s['a']['rational'] != s['c']['rational']:
            out.append('append:rationality-differs')
        if len(s['a']['cps'][0]) - s['a']['rational'] != len(s['c']['cps'][0]) - s['c']['rational']:
            out.append('append:dimension-differs')
    elif k == 'split_append':
        if s['obj']['bases'][0]['periodic'] >= 0:
            out.append('split_append:periodic')
            if _small_periodic(s['obj']):
                out.append('periodic-small')
        if s.get('raise'):
            out.append('split_append:raised-piece')
        out.append('split_append:' + s.get('assoc', 'left'))
        if s['obj']['rational']:
            out.append('rational')
    elif k == 'subdivide':
        if any(b['periodic'] >= 0 for b in s['objs'][0]['bases']):
            out.append('subdivide:periodic')
        out.append('pardim=%d' % len(s['objs'][0]['bases']))
    elif k == 'alias_split':
        out.append('alias_split:' + s['how'])
        out.append('alias_split:pardim=%d' % (3 if s['how'] == 'sphere' else len(s['obj']['bases'])))
        if s['how'] == 'shared' and s['obj']['rational']:
            out.append('alias_split:rational')
    elif k == 'sibling':
        out.append('sibling:' + s['via'])
        out.append('sibling:' + s['op']['name'])
        out.append('sibling:pardim=%d' % len(s['obj']['bases']))
        if s['obj']['rational']:
            out.append('sibling:rational')
    return out


def nontrivial(s, res):
    k = s['kind']
    if k == 'split':
        return split_claim(s) is not None
    return k in ('split_append', 'subdivide', 'append', 'alias_split', 'sibling')
