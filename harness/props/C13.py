"""C13 — primitive factories produce the exact shapes they name, placed as requested.

Correspondence: control nets, knot vectors, orders, periodicity, rationality of the real factory
results versus the Lean model `Splipy.Fac.*` (Model/Factories.lean) run at Q.  Trigonometry enters
the model as field elements: the harness supplies (cos, sin) pairs, 1/sqrt2, sqrt2, pi and the
norms the code obtains with sqrt/atan2.  Two argument streams:
  * 'exact' : angles with rational cos/sin (Pythagorean parametrisation), normals/axes with
              rational norms, x-axes exactly orthogonal — the relations the theorems assume hold
              exactly for the values the model runs on;
  * 'float' : arbitrary floats; the auxiliary values are the correctly rounded cos/sin/sqrt.
Oracle (model independent, real objects, every stream): implicit equations on 2p+1 points per knot
span, start point, orientation, angle covered, three-point arc through its points, n-gon vertices,
revolve/extrude sections against the evaluated profile.
"""
from fractions import Fraction as F
import math
import re
from math import pi, sqrt, cos, sin, atan2, ceil

import numpy as np

from vlib import gen
from vlib.val import line, Word

ID = 'C13'
RTOL = 1e-9
ATOL = 1e-11
KTOL = 1e-12
RULE = ('every factory of the property (line, polygon, n_gon, circle p2C0/p4C1, ellipse, circle_segment, '
        'circle_segment_from_three_points, square, cube, disc radial/square, sphere, cylinder, torus, solid '
        'sphere (radial and square)/cylinder/torus, revolve/extrude of random curves and surfaces, rotate_local_x_axis, '
        'flip_and_move_plane_geometry); radii/heights/centres random dyadic; normals/axes: +-coordinate axes, '
        'every octant, non-unit, rational-norm (exact stream) and arbitrary floats; x-axes orthogonal to the normal; '
        'angles in [-2pi,2pi] incl. the span-count thresholds and +-2pi; both circle types; non-collinear triples '
        '(2D, 3D, mixed).  distinct = distinct protocol lines; non-trivial = the call does not raise.')
REQUIRED_TAGS = ['args:same-list-object', 'args:reused-across-calls', 'args:tuple', 'args:ndarray', 'args:intarray', 'normal-signed-zero', 'op=circle', 'op=ellipse', 'op=arc', 'op=three', 'op=ngon', 'op=line', 'op=polygon', 'op=square',
                 'op=cube', 'op=disc', 'op=sphere', 'op=cylinder', 'op=torus', 'op=revolve', 'op=extrude',
                 'op=revolve_vol', 'op=extrude_vol', 'op=sphere_vol', 'op=torus_vol', 'op=cylinder_vol',
                 'op=local_x', 'op=flip', 'type=p4C1', 'type=p2C0', 'normal=-ez', 'normal=+ez', 'normal=axis',
                 'normal=nonunit', 'stream=exact', 'stream=float', 'spans=1', 'spans=2', 'spans=3', 'theta<0',
                 'theta=2pi', 'theta=threshold', 'raises']

KNOWN_LABELS = ['argument-object-mutated', 'wrong-physical-dimension', 'signed-zero-normal-half-turn', 'center-within-1e-8-of-origin-ignored', 'three-point-arc-wrong-end', 'three-point-arc-small-radius-absolute-tolerance', 'three-point-arc-nan-half-turn', 'three-point-arc-half-turn-accuracy', 'arc-2pi-ignores-xaxis', 'near-ez-normal-misplaced',
                'volume-revolve-negative-theta-reversed', 'cylinder-height-scaled-by-axis-norm']

PI_F = F(math.pi)
W_F = F(1.0 / sqrt(2))
S2_F = F(sqrt(2))
CONSTS = [PI_F, W_F, S2_F]


def tol_cp():
    """splipy.state.controlpoint_absolute_tolerance of the implementation under test (read at run time)."""
    from vlib import impl as _impl
    sp = _impl.load()[0]
    import importlib
    return float(importlib.import_module('splipy.state').controlpoint_absolute_tolerance)


_three_form = None


def three_point_form():
    """Which branch test `circle_segment_from_three_points` of the tree under test uses — read off its source:
    'signs' = component-wise sign comparison with `controlpoint_absolute_tolerance` (model `sameSigns`),
    'dot'   = sign of `np.dot(w2, normal)` (model `keepDot`)."""
    global _three_form
    if _three_form is None:
        import importlib
        import inspect
        from vlib import impl as _impl
        _impl.load()
        src = inspect.getsource(importlib.import_module('splipy.curve_factory').circle_segment_from_three_points)
        code = '\n'.join(l.split('#')[0] for l in src.splitlines())
        if 'controlpoint_absolute_tolerance' in code and 'np.sign' in code:
            _three_form = 'signs'
        elif 'np.dot(w2' in code.replace(' ', '').replace('np.dot(w2', 'np.dot(w2') or 'dot(w2,normal)' in code.replace(' ', ''):
            _three_form = 'dot'
        else:
            raise RuntimeError('circle_segment_from_three_points: unrecognised branch test; update harness/props/C13.py '
                               'and Fac.threePointDataWith')
    return _three_form


# ---------------------------------------------------------------------------------------------
# exact angles

RATS = [F(0), F(1, 2), F(1, 3), F(2, 3), F(1, 4), F(3, 4), F(2, 5), F(3, 5), F(1, 5), F(4, 5), F(3, 8), F(5, 8),
        F(1, 1), F(2, 1), F(3, 1), F(3, 2), F(4, 3), F(5, 2), F(5, 3), F(7, 4)]


def rat_cs(m):
    """(cos, sin) of the angle 2*atan(m)."""
    return (1 - m * m) / (1 + m * m), 2 * m / (1 + m * m)


def fs(x):
    return str(F(x))


def unfs(x):
    return F(x) if isinstance(x, str) else x


def Mrot(a, v):
    """R_z(theta) R_y(phi) v for aux a = (ct, st, cp, sp)."""
    ct, st, cp, sp = a
    x, y, z = v
    x, z = x * cp + z * sp, -x * sp + z * cp
    return [x * ct - y * st, x * st + y * ct, z]


def Minv(a, v):
    """R_y(-phi) R_z(-theta) v."""
    ct, st, cp, sp = a
    x, y, z = v
    x, y = x * ct + y * st, -x * st + y * ct
    x, z = x * cp - z * sp, x * sp + z * cp
    return [x, y, z]


_azimuth_form = None


def azimuth_form():
    """How `utils.rotate_local_x_axis` / `flip_and_move_plane_geometry` of the tree under test take the azimuth
    of the normal — read off the source: 'raw' = `atan2(normal[1], normal[0])` (signed zeros give +-pi for a
    normal along the z-axis), 'guarded' = 0 when the normal has no xy-part."""
    global _azimuth_form
    if _azimuth_form is None:
        import importlib
        import inspect
        from vlib import impl as _impl
        _impl.load()
        ut = importlib.import_module('splipy.utils')
        forms = set()
        for fn in (ut.rotate_local_x_axis, ut.flip_and_move_plane_geometry):
            code = [l.split('#')[0] for l in inspect.getsource(fn).splitlines()]
            th = [l for l in code if re.match(r'\s*theta\s*=', l)]
            if len(th) != 1 or 'atan2(normal[1], normal[0])' not in th[0]:
                raise RuntimeError('unrecognised azimuth line in %s: %r; update harness/props/C13.py' % (fn.__name__, th))
            rest = th[0].replace('atan2(normal[1], normal[0])', '').replace(' ', '')
            if rest in ('theta=',):
                forms.add('raw')
            elif rest == 'theta=if(normal[0]!=0ornormal[1]!=0)else0.0':
                forms.add('guarded')
            else:
                raise RuntimeError('unrecognised azimuth rule in %s: %r; update harness/props/C13.py' % (fn.__name__, th[0]))
        if len(forms) != 1:
            raise RuntimeError('rotate_local_x_axis and flip_and_move_plane_geometry use different azimuth rules: %s' % forms)
        _azimuth_form = forms.pop()
    return _azimuth_form


def float_naux_raw(n):
    """(cos, sin) of theta = atan2(n_y, n_x), phi = atan2(|n_xy|, n_z) — `revolve` computes these itself."""
    th = atan2(n[1], n[0])
    ph = atan2(sqrt(n[0] ** 2 + n[1] ** 2), n[2])
    return [cos(th), sin(th), cos(ph), sin(ph)]


def float_naux(n):
    """The same for the placement helpers, with the azimuth rule of the tree under test."""
    if azimuth_form() == 'guarded' and n[0] == 0 and n[1] == 0:
        ph = atan2(0.0, n[2])
        return [1.0, 0.0, cos(ph), sin(ph)]
    return float_naux_raw(n)


def float_lam(xaxis, a):
    x = list(xaxis)
    if len(x) != 3:
        x = [x[0], x[1], 0]
    v = Minv(a, [float(t) for t in x])
    return math.hypot(v[0], v[1])


def placement(s):
    """(naux, lam) of a spec with 'normal' and 'xaxis' (exact when the spec carries them)."""
    ex = s.get('exact') or {}
    if 'naux' in ex:
        a = [F(x) for x in ex['naux']]
    else:
        a = float_naux(s['normal'])
    xaxis = s.get('xaxis') or [1, 0, 0]
    if 'lam' in ex:
        lam = F(ex['lam'])
    else:
        lam = float_lam(xaxis, [float(x) for x in a])
    if lam == 0:
        lam = 1
    return a, lam


def arc_aux(theta, ex=None):
    """[spans, cos dt, sin dt] as circle_segment derives them."""
    spans = int(ceil(abs(theta) / (2 * pi / 3)))
    if ex and 'arc' in ex:
        return [spans, F(ex['arc'][0]), F(ex['arc'][1])]
    if theta == 2 * pi:
        return [4, W_F, W_F]
    if spans == 0:
        return [0, 1, 0]
    dt = float(theta) / spans / 2
    return [spans, cos(dt), sin(dt)]


# ---------------------------------------------------------------------------------------------
# generators

AXES = [[0, 0, 1], [0, 0, -1], [1, 0, 0], [-1, 0, 0], [0, 1, 0], [0, -1, 0]]
AXES_AUX = {(0, 0, 1): [1, 0, 1, 0], (0, 0, -1): [1, 0, -1, 0], (1, 0, 0): [1, 0, 0, 1], (-1, 0, 0): [-1, 0, 0, 1],
            (0, 1, 0): [0, 1, 0, 1], (0, -1, 0): [0, -1, 0, 1]}


def gen_normal(rng, kind=None):
    """Returns (normal floats, exact naux strings or None, label)."""
    kind = kind or rng.choice(['axis', 'axis', 'exact', 'exact', 'exact', 'float', 'float', 'ezscaled'])
    if kind == 'axis':
        n = rng.choice(AXES)
        return list(n), [fs(x) for x in AXES_AUX[tuple(n)]], kind
    if kind == 'ezscaled':
        k = rng.choice([2, 0.5, 3, -2, -0.25])
        return [0, 0, k], [fs(x) for x in ([1, 0, 1, 0] if k > 0 else [1, 0, -1, 0])], kind
    if kind == 'exact':
        mt = rng.choice(RATS[1:]) * rng.choice([1, -1])
        mp = rng.choice(RATS[1:])
        ct, st = rat_cs(mt)
        cp, sp = rat_cs(mp)
        N = F(rng.choice([1, 1, 2, 0.5, 3, 0.25, 1.5]))
        n = [N * sp * ct, N * sp * st, N * cp]
        return [float(x) for x in n], [fs(ct), fs(st), fs(cp), fs(sp)], kind
    while True:
        n = [rng.uniform(-2, 2) for _ in range(3)]
        if math.hypot(*n) > 0.2 and math.hypot(n[0], n[1]) > 0.05:
            return n, None, kind


def gen_xaxis(rng, normal, naux):
    """x-axis orthogonal to the normal: (floats, exact lam string or None)."""
    if naux is not None:
        a = [F(x) for x in naux]
        m = rng.choice(RATS) * rng.choice([1, -1])
        ca, sa = rat_cs(m)
        if rng.random() < 0.1:
            ca, sa = F(-1), F(0)
        sc = F(rng.choice([1, 1, 2, 0.5, 3]))
        x = Mrot(a, [sc * ca, sc * sa, F(0)])
        return [float(t) for t in x], fs(sc)
    n = np.array(normal, dtype=float)
    while True:
        v = np.cross(n, [rng.uniform(-1, 1) for _ in range(3)])
        if np.linalg.norm(v) > 0.1:
            return (v * rng.choice([1.0, 1.0, 0.5, 2.0]) / np.linalg.norm(n)).tolist(), None


def gen_center(rng, allow2d=False):
    r = rng.random()
    if r < 0.2:
        return [0, 0, 0]
    if allow2d and r < 0.35:
        return [gen.dyadic(rng, -4, 4), gen.dyadic(rng, -4, 4)]
    return [gen.dyadic(rng, -4, 4) for _ in range(3)]


def gen_radius(rng):
    return rng.choice([1, 1.0, 0.5, 2.0, 0.25, 3.5, 0.375, 10.0, 1.0 / 3, 0.1])


def placed(rng, base, kind=None, allow2d=False):
    n, naux, label = gen_normal(rng, kind)
    x, lam = gen_xaxis(rng, n, naux)
    s = dict(base)
    s.update({'normal': n, 'xaxis': x, 'center': gen_center(rng, allow2d and n == [0, 0, 1]), 'nkind': label})
    if naux is not None:
        s['exact'] = {'naux': naux, 'lam': lam}
        s['stream'] = 'exact'
    else:
        s['stream'] = 'float'
    return s


def gen_theta(rng):
    """(theta, exact arc strings or None, label)."""
    r = rng.random()
    if r < 0.4:
        n = rng.choice([1, 2, 3])
        lo = math.tan((n - 1) / n * pi / 6) if n > 1 else 0.0
        hi = math.tan(pi / 6)
        cands = [m for m in [F(1, 2), F(2, 5), F(3, 8), F(1, 3), F(1, 4), F(1, 5), F(3, 7), F(4, 9), F(5, 9), F(9, 16),
                             F(1, 8), F(2, 7), F(3, 10), F(1, 10), F(7, 16), F(5, 16)] if lo * 1.02 < m < hi * 0.98]
        m = rng.choice(cands) * rng.choice([1, -1])
        cd, sd = rat_cs(m)
        theta = 2 * n * atan2(float(sd), float(cd))
        assert int(ceil(abs(theta) / (2 * pi / 3))) == n
        return theta, [fs(cd), fs(sd)], 'exact'
    if r < 0.6:
        base = rng.choice([2 * pi / 3, 4 * pi / 3, 2 * pi, pi, pi / 2])
        th = rng.choice([base, -base, math.nextafter(base, 0), math.nextafter(base, 7) if base < 2 * pi else base,
                         -math.nextafter(base, 0)])
        return th, None, 'threshold'
    return rng.uniform(-2 * pi, 2 * pi), None, 'float'


def gen_triple(rng, tier, kind=None):
    """Non-collinear triple.  kind: 'unit' (O(1) coordinates), 'small' (circumradius 1e-6 … 1e-3),
    'large' (1e3 … 1e6), 'flat' (nearly collinear: the middle point is 1e-3 … 1e-1 of the chord off it)."""
    kind = kind or rng.choice(['unit'] * 6 + ['small', 'small', 'large', 'flat'])
    r = rng.random()
    if r < 0.3:
        d = [2, 2, 2]
    elif r < 0.4:
        d = [rng.choice([2, 3]) for _ in range(3)]
    else:
        d = [3, 3, 3]
    if kind in ('small', 'large'):
        # three angles on a circle of the requested radius in a random plane through a random centre
        rad = 10.0 ** (rng.uniform(-6, -3) if kind == 'small' else rng.uniform(3, 6))
        while True:
            ang = sorted(rng.uniform(0, 2 * pi) for _ in range(3))
            if min(ang[1] - ang[0], ang[2] - ang[1], 2 * pi - ang[2] + ang[0]) > 0.3:
                break
        if rng.random() < 0.5:
            ang = ang[::-1]
        k = rng.randrange(3)
        ang = ang[k:] + ang[:k]
        if max(d) == 2:
            e1, e2, ctr = np.array([1.0, 0, 0]), np.array([0, 1.0, 0]), np.array([rng.uniform(-1, 1) * rad, rng.uniform(-1, 1) * rad, 0.0])
        else:
            n = np.array([rng.uniform(-1, 1) for _ in range(3)])
            n /= np.linalg.norm(n)
            e1 = np.cross(n, [1.0, 0.3, -0.2])
            e1 /= np.linalg.norm(e1)
            e2 = np.cross(n, e1)
            ctr = np.array([rng.uniform(-1, 1) * rad for _ in range(3)])
            d = [3, 3, 3]
        return [(ctr + rad * (cos(a) * e1 + sin(a) * e2))[:k_].tolist() for a, k_ in zip(ang, d)]
    if kind == 'flat' and max(d) == 3:
        d = [3, 3, 3]
    while True:
        if kind == 'flat':
            a = np.array([rng.uniform(-3, 3) for _ in range(3)])
            b = np.array([rng.uniform(-3, 3) for _ in range(3)])
            if max(d) == 2:
                a[2] = b[2] = 0.0
            if np.linalg.norm(b - a) < 0.5:
                continue
            off = np.cross(b - a, [0.0, 0.0, 1.0] if max(d) == 2 else [rng.uniform(-1, 1) for _ in range(3)])
            if np.linalg.norm(off) < 1e-3:
                continue
            off *= 10.0 ** rng.uniform(-3, -1) * np.linalg.norm(b - a) / np.linalg.norm(off) * rng.choice([1, -1])
            m = a + rng.uniform(0.2, 0.8) * (b - a) + off
            P = [a[:d[0]].tolist(), m[:d[1]].tolist(), b[:d[2]].tolist()]
            return P
        if rng.random() < 0.5:
            P = [[gen.dyadic(rng, -4, 4, 2) for _ in range(k)] for k in d]
        else:
            P = [[rng.uniform(-3, 3) for _ in range(k)] for k in d]
        p = [np.array((x + [0, 0, 0])[:3], dtype=float) for x in P]
        a, b = p[1] - p[0], p[2] - p[0]
        cr = np.linalg.norm(np.cross(a, b))
        lim = 0.05 if tier == 'quick' else 1e-3
        if cr > lim * max(1.0, np.linalg.norm(a) * np.linalg.norm(b)) and np.linalg.norm(p[2] - p[1]) > 0.05:
            return P


def profile(rng, pardim):
    return gen.rand_object(rng, pardim=pardim, dim=rng.choice([2, 3]), rational=rng.random() < 0.4, pmax=3,
                           periodic_prob=0.2, max_interior=1)


def generate(rng, tier):
    q = tier == 'quick'
    S = []
    rep = (lambda a, b: a if q else b)
    # minimal reproducers of the defect classes seen on the pinned tree (one per class, first in the run)
    S.append({'op': 'three', 'x': [[1.0, 0.0], [0.0, -1.0], [0.6, -0.8]], 'stream': 'float', 'tkind': 'sentinel'})
    S.append({'op': 'three', 'x': [[-2.0, 0.75, 1.0], [-2.0, 0.75, 1.5], [1.75, -1.0, 1.5]], 'stream': 'float', 'tkind': 'right-angle'})
    S.append({'op': 'three', 'x': [[5e-5 * cos(a), 5e-5 * sin(a)] for a in (0.0, 2.5, 4.5)], 'stream': 'float', 'tkind': 'small'})
    S.append({'op': 'arc', 'theta': 2 * pi, 'r': 1.0, 'center': [0, 0, 0], 'normal': [0, 0, 1], 'xaxis': [0.0, 1.0, 0.0],
              'tkind': 'threshold', 'nkind': 'axis', 'stream': 'exact', 'exact': {'naux': ['1', '0', '1', '0'], 'lam': '1'}})
    S.append({'op': 'circle', 'r': 1.0, 'type': 'p2C0', 'normal': [0.0, 2.0 ** -30, 1.0], 'xaxis': [1.0, 0.0, 0.0],
              'center': [0, 0, 0], 'nkind': 'near-ez', 'stream': 'float'})
    S.append({'op': 'revolve_vol', 'obj': {'bases': [{'order': 2, 'knots': [0.0, 0.0, 1.0, 1.0], 'periodic': -1}] * 2,
                                           'cps': [[[1.0, 0.0, 0.0], [1.0, 0.0, 1.0]], [[2.0, 0.0, 0.0], [2.0, 0.0, 1.0]]],
                                           'rational': False},
              'theta': -1.0, 'axis': [0, 0, 1], 'nkind': 'axis', 'tkind': 'float', 'stream': 'float',
              'exact': {'naux': ['1', '0', '1', '0']}})
    S.append({'op': 'cylinder', 'r': 1.0, 'h': 1.0, 'center': [0, 0, 0], 'normal': [0, 0, 2], 'xaxis': [1.0, 0.0, 0.0],
              'nkind': 'ezscaled', 'stream': 'exact', 'exact': {'naux': ['1', '0', '1', '0'], 'lam': '1'}})
    # helpers
    for _ in range(rep(40, 400)):
        s = placed(rng, {'op': 'local_x'})
        S.append(s)
    for _ in range(rep(30, 300)):
        dm = rng.choice([2, 3])
        o = gen.rand_object(rng, pardim=rng.choice([1, 2]), dim=dm, pmax=3, max_interior=1)
        S.append(placed(rng, {'op': 'flip', 'obj': o}, allow2d=(dm == 2)))
    # curves
    for _ in range(rep(15, 100)):
        d = rng.choice([2, 3])
        S.append({'op': 'line', 'a': [gen.dyadic(rng, -4, 4) for _ in range(d)],
                  'b': [gen.dyadic(rng, -4, 4) for _ in range(d)], 'relative': rng.random() < 0.5, 'stream': 'exact'})
    for _ in range(rep(20, 150)):
        d = rng.choice([2, 3])
        n = rng.randint(2, 6)
        pts = [[gen.dyadic(rng, -4, 4) for _ in range(d)] for _ in range(n)]
        for i in range(1, n):
            if pts[i] == pts[i - 1] or all(x == 0 for x in pts[i]):
                pts[i][0] += 1.0
        s = {'op': 'polygon', 'pts': pts, 'relative': rng.random() < 0.4, 'stream': 'float'}
        if rng.random() < 0.4:
            s['t'] = gen.increasing(rng, n, start=rng.choice([0.0, -1.0, 2.5]))
        S.append(s)
    for _ in range(rep(50, 400)):
        n = rng.choice([3, 4, 5, 6, 7, 8, 12])
        s = placed(rng, {'op': 'ngon', 'n': n, 'r': gen_radius(rng)}, allow2d=True)
        s.pop('xaxis')
        (s.get('exact') or {}).pop('lam', None)
        S.append(s)
    for _ in range(rep(200, 1500)):
        S.append(placed(rng, {'op': 'circle', 'r': gen_radius(rng), 'type': rng.choice(['p2C0', 'p4C1', 'p2C0', 'C0p2', 'c1p4', 'P4c1'])},
                        allow2d=True))
    for _ in range(rep(60, 600)):
        S.append(placed(rng, {'op': 'ellipse', 'r1': gen_radius(rng), 'r2': gen_radius(rng), 'type': rng.choice(['p2C0', 'p4C1'])},
                        allow2d=True))
    for _ in range(rep(320, 2500)):
        th, arc, lab = gen_theta(rng)
        s = placed(rng, {'op': 'arc', 'theta': th, 'r': gen_radius(rng), 'tkind': lab}, allow2d=True)
        if arc is not None:
            s.setdefault('exact', {})['arc'] = arc
        if s['stream'] == 'exact' and arc is None:
            s['stream'] = 'float'
        S.append(s)
    # the near-e_z normal (flip skipped by np.allclose while rotate_local_x_axis still rotates back)
    for nrm, xa in [([0.0, 2.0 ** -30, 1.0], [1.0, 0.0, 0.0]), ([2.0 ** -30, 2.0 ** -30, 1.0], [1.0, -1.0, 0.0])]:
        S.append({'op': 'circle', 'r': 1.0, 'type': 'p2C0', 'normal': nrm, 'xaxis': xa, 'center': [0, 0, 0],
                  'nkind': 'near-ez', 'stream': 'float'})
    for _ in range(rep(250, 2500)):
        S.append({'op': 'three', 'x': gen_triple(rng, tier), 'stream': 'float'})
    for kind in ('small', 'large', 'flat'):
        for _ in range(rep(25, 300)):
            S.append({'op': 'three', 'x': gen_triple(rng, tier, kind), 'stream': 'float', 'tkind': kind})
    # default x-axis (1,0,0) with a non-default normal orthogonal to it; theta = 0; centre within 1e-8 of the origin
    for nrm in ([0, 1, 0], [0, -1, 0], [0, 3, 4], [0.0, -0.6, 0.8], [0, 0, -1], [0, 1, -1]):
        ex = {'naux': [fs(F(x)) for x in float_naux(nrm)]} if nrm in ([0, 1, 0], [0, -1, 0], [0, 0, -1]) else None
        for op, extra in (('circle', {'r': 1.5, 'type': 'p2C0'}), ('circle', {'r': 0.5, 'type': 'p4C1'}),
                          ('arc', {'theta': 2.0, 'r': 2.0, 'tkind': 'float'}), ('ellipse', {'r1': 2.0, 'r2': 0.5, 'type': 'p2C0'}),
                          ('disc', {'r': 1.0, 'type': 'radial'}), ('sphere', {'r': 1.0}), ('torus', {'r1': 0.5, 'r2': 2.0}),
                          ('cylinder', {'r': 1.0, 'h': 2.0})):
            sp_ = dict(extra)
            sp_.update({'op': op, 'normal': list(nrm), 'xaxis': [1, 0, 0], 'center': [0.5, -1.0, 2.0], 'nkind': 'default-xaxis',
                        'stream': 'float'})
            S.append(sp_)
    S.append(placed(rng, {'op': 'arc', 'theta': 0.0, 'r': 1.0, 'tkind': 'zero', 'raises': True}, 'axis'))
    # normals (+-0., +-0., +-1): signed zeros decide atan2(n_y, n_x); plus a 2-D three-point triple whose travel
    # normal is exactly (-0., 0., 1.)
    for sx in (0.0, -0.0):
        for sy in (0.0, -0.0):
            for sz in (1.0, -1.0):
                nrm = [sx, sy, sz]
                for op, extra in (('circle', {'r': 1.5, 'type': 'p2C0'}), ('circle', {'r': 0.5, 'type': 'p4C1'}),
                                  ('arc', {'theta': 2.0, 'r': 2.0, 'tkind': 'float'}), ('arc', {'theta': -4.5, 'r': 1.0, 'tkind': 'float'}),
                                  ('ellipse', {'r1': 2.0, 'r2': 0.5, 'type': 'p2C0'}), ('disc', {'r': 1.0, 'type': 'radial'}),
                                  ('disc', {'r': 1.0, 'type': 'square'}), ('sphere', {'r': 1.0}), ('torus', {'r1': 0.5, 'r2': 2.0}),
                                  ('cylinder', {'r': 1.0, 'h': 2.0}), ('torus_vol', {'r1': 0.5, 'r2': 2.0, 'type': 'radial'}),
                                  ('cylinder_vol', {'r': 1.0, 'h': 0.5, 'type': 'radial'}), ('local_x', {}), ('ngon', {'n': 5, 'r': 1.0})):
                    sp_ = dict(extra)
                    sp_.update({'op': op, 'normal': list(nrm), 'xaxis': rng.choice([[1.0, 0.0, 0.0], [0.0, 1.0, 0.0], [-1.0, 1.0, 0.0]]),
                                'center': [0.5, -1.0, 2.0], 'nkind': 'signed-zero', 'stream': 'float'})
                    if op == 'ngon':
                        sp_.pop('xaxis')
                    S.append(sp_)
    S.append({'op': 'three', 'x': [[-1.0, 3.5], [1.0, 4.0], [-2.0, 3.75]], 'stream': 'float', 'tkind': 'signed-zero'})
    S.append({'op': 'circle', 'r': 1e-9, 'type': 'p2C0', 'normal': [0, 0, 1], 'xaxis': [1, 0, 0], 'center': [5e-9, 0.0, 0.0],
              'nkind': 'tiny-center', 'stream': 'float'})
    # right angle at x1 (x0, x2 antipodal on the circumcircle: theta = pi)
    for P in ([[-2.0, 0.75, 1.0], [-2.0, 0.75, 1.5], [1.75, -1.0, 1.5]], [[0.0, 0.0], [0.0, 1.0], [2.0, 1.0]],
              [[1.0, 0.0, 0.0], [0.0, 0.0, 3.0], [-1.0, 0.0, 0.0]]):
        S.append({'op': 'three', 'x': P, 'stream': 'float', 'tkind': 'right-angle'})
    # error branches
    S.append(placed(rng, {'op': 'circle', 'r': 0.0, 'type': 'p2C0'}, 'axis'))
    S.append(placed(rng, {'op': 'circle', 'r': -1.0, 'type': 'p4C1'}, 'exact'))
    S.append(placed(rng, {'op': 'circle', 'r': 1.0, 'type': 'p3C1'}, 'axis'))
    S.append(placed(rng, {'op': 'ngon', 'n': 2, 'r': 1.0}, 'axis'))
    S.append(placed(rng, {'op': 'ngon', 'n': 5, 'r': 0.0}, 'axis'))
    S.append(placed(rng, {'op': 'arc', 'theta': 7.0, 'r': 1.0, 'tkind': 'float'}, 'axis'))
    S.append(placed(rng, {'op': 'arc', 'theta': -6.5, 'r': 1.0, 'tkind': 'float'}, 'float'))
    S.append(placed(rng, {'op': 'arc', 'theta': 1.0, 'r': 0.0, 'tkind': 'float'}, 'axis'))
    S.append(placed(rng, {'op': 'disc', 'r': 1.0, 'type': 'triangular'}, 'axis'))
    S.append(placed(rng, {'op': 'disc', 'r': -1.0, 'type': 'radial'}, 'axis'))
    S.append({'op': 'three', 'x': [[0, 0], [1, 1], [2, 2]], 'stream': 'float'})
    for s in S[-11:]:
        s['raises'] = True
    # argument objects: the same Python list passed twice, a list reused across two calls, container types
    for mode in ('same', 'reused'):
        for _ in range(rep(6, 40)):
            p2 = [gen.dyadic(rng, 0.25, 4), gen.dyadic(rng, 0.25, 4)]
            S.append({'op': 'argobj', 'mode': mode, 'ctype': 'list', 'stream': 'exact',
                      'base': {'op': 'square', 'size': list(p2) if mode == 'same' else [gen.dyadic(rng, 0.25, 4)],
                               'scalar': mode == 'reused', 'll': list(p2), 'stream': 'exact'}})
            p3 = [gen.dyadic(rng, 0.25, 4) for _ in range(3)]
            S.append({'op': 'argobj', 'mode': mode, 'ctype': 'list', 'stream': 'exact',
                      'base': {'op': 'cube', 'size': list(p3) if mode == 'same' else [gen.dyadic(rng, 0.25, 4)],
                               'scalar': mode == 'reused', 'll': list(p3), 'stream': 'exact'}})
        for _ in range(rep(4, 30)):
            v = [0.0, 0.0, rng.choice([1.0, 2.0, 0.5, -1.0, -2.5])]
            for base in ({'op': 'circle', 'r': gen_radius(rng), 'type': rng.choice(['p2C0', 'p4C1'])},
                         {'op': 'cylinder', 'r': gen_radius(rng), 'h': 1.5}, {'op': 'disc', 'r': gen_radius(rng), 'type': 'radial'}):
                b = dict(base)
                b.update({'center': list(v), 'normal': list(v), 'xaxis': [1.0, 0.0, 0.0], 'nkind': 'ezscaled', 'stream': 'float'})
                S.append({'op': 'argobj', 'mode': mode, 'ctype': 'list', 'stream': 'float', 'base': b})
    for ctype in ('list', 'tuple', 'ndarray', 'intarray'):
        for _ in range(rep(3, 20)):
            ints = ctype == 'intarray'
            val = (lambda lo, hi: float(rng.randint(int(lo) + 1, int(hi)))) if ints else (lambda lo, hi: gen.dyadic(rng, lo, hi))
            S.append({'op': 'argobj', 'mode': 'types', 'ctype': ctype, 'stream': 'exact',
                      'base': {'op': 'square', 'size': [val(0.25, 4), val(0.25, 4)], 'scalar': False,
                               'll': [val(-4, 4) for _ in range(rng.choice([2, 3]))], 'stream': 'exact'}})
            S.append({'op': 'argobj', 'mode': 'types', 'ctype': ctype, 'stream': 'exact',
                      'base': {'op': 'cube', 'size': [val(0.25, 4) for _ in range(rng.choice([1, 2, 3]))], 'scalar': False,
                               'll': [val(-4, 4) for _ in range(3)], 'stream': 'exact'}})
            b = placed(rng, {'op': 'circle', 'r': gen_radius(rng), 'type': 'p2C0'}, 'axis')
            if ints:
                b['center'] = [float(rng.randint(-3, 3)) for _ in range(3)]
                orth = [a for a in AXES if sum(p_ * q_ for p_, q_ in zip(a, b['normal'])) == 0]
                b['xaxis'] = [float(t) * rng.choice([1, 2]) for t in rng.choice(orth)]
                b.pop('exact', None)
                b['stream'] = 'float'
            S.append({'op': 'argobj', 'mode': 'types', 'ctype': ctype, 'stream': b['stream'], 'base': b})
            S.append({'op': 'argobj', 'mode': 'types', 'ctype': ctype, 'stream': 'exact',
                      'base': {'op': 'line', 'a': [val(-4, 4) for _ in range(3)], 'b': [val(-4, 4) for _ in range(3)],
                               'relative': rng.random() < 0.5, 'stream': 'exact'}})
    # surfaces / volumes
    for _ in range(rep(12, 80)):
        k = rng.choice([1, 2])
        S.append({'op': 'square', 'size': [gen.dyadic(rng, 0.25, 4) for _ in range(k)], 'scalar': k == 1 and rng.random() < 0.5,
                  'll': [gen.dyadic(rng, -4, 4) for _ in range(rng.choice([2, 2, 3]))], 'stream': 'exact'})
        k = rng.choice([1, 3])
        S.append({'op': 'cube', 'size': [gen.dyadic(rng, 0.25, 4) for _ in range(k)], 'scalar': k == 1 and rng.random() < 0.5,
                  'll': [gen.dyadic(rng, -4, 4) for _ in range(3)], 'stream': 'exact'})
    for _ in range(rep(50, 500)):
        S.append(placed(rng, {'op': 'disc', 'r': gen_radius(rng), 'type': rng.choice(['radial', 'square'])}, allow2d=True))
    for _ in range(rep(40, 400)):
        S.append(placed(rng, {'op': 'sphere', 'r': gen_radius(rng)}))
    for _ in range(rep(40, 400)):
        S.append(placed(rng, {'op': 'cylinder', 'r': gen_radius(rng), 'h': rng.choice([1, 2.0, 0.5, 3.25])}))
    for _ in range(rep(40, 400)):
        r1 = gen_radius(rng)
        S.append(placed(rng, {'op': 'torus', 'r1': r1, 'r2': r1 * rng.choice([2, 3, 1.5, 4.25])}))
    for _ in range(rep(10, 60)):
        S.append({'op': 'sphere_vol', 'r': gen_radius(rng), 'center': gen_center(rng), 'type': 'radial', 'stream': 'float'})
    for _ in range(rep(6, 40)):
        S.append({'op': 'sphere_vol', 'r': gen_radius(rng), 'center': gen_center(rng), 'type': 'square', 'stream': 'float'})
    for _ in range(rep(20, 200)):
        r1 = gen_radius(rng)
        S.append(placed(rng, {'op': 'torus_vol', 'r1': r1, 'r2': r1 * rng.choice([2, 3, 1.5]), 'type': rng.choice(['radial', 'square'])}))
    for _ in range(rep(20, 200)):
        S.append(placed(rng, {'op': 'cylinder_vol', 'r': gen_radius(rng), 'h': rng.choice([1, 2.0, 0.5]),
                              'type': rng.choice(['radial', 'square'])}))
    # revolve / extrude of arbitrary profiles
    for pd, op in [(1, 'revolve'), (2, 'revolve_vol')]:
        for _ in range(rep(60, 600) if pd == 1 else rep(30, 300)):
            th, arc, lab = gen_theta(rng)
            if rng.random() < 0.2:
                th, arc, lab = 2 * pi, None, 'threshold'
            n, naux, nl = gen_normal(rng, rng.choice(['axis', 'exact', 'exact', 'float', 'ezscaled']))
            s = {'op': op, 'obj': profile(rng, pd), 'theta': th, 'axis': n, 'nkind': nl, 'tkind': lab,
                 'stream': 'exact' if (naux is not None and arc is not None) else 'float'}
            ex = {}
            if naux is not None:
                ex['naux'] = naux
            if arc is not None:
                ex['arc'] = arc
            if ex:
                s['exact'] = ex
            S.append(s)
    for pd, op in [(1, 'extrude'), (2, 'extrude_vol')]:
        for _ in range(rep(30, 300)):
            S.append({'op': op, 'obj': profile(rng, pd), 'amount': [gen.dyadic(rng, -4, 4) for _ in range(3)], 'stream': 'exact'})
    return S


# ---------------------------------------------------------------------------------------------
# the real calls

def _conv(vals, ctype):
    if ctype == 'tuple':
        return tuple(vals)
    if ctype == 'ndarray':
        return np.array(vals, dtype=float)
    if ctype == 'intarray':
        return np.array([int(v) for v in vals])
    return list(vals)


def _call_argobj(sp, s):
    """Returns (result, [(name, object, snapshot-as-list)]) for the argument-object cases."""
    import importlib
    cf = importlib.import_module('splipy.curve_factory')
    sf = importlib.import_module('splipy.surface_factory')
    vf = importlib.import_module('splipy.volume_factory')
    b, mode, ct = s['base'], s['mode'], s['ctype']
    op = b['op']
    objs = []

    def mk(name, vals):
        o = _conv(vals, ct)
        objs.append((name, o, [float(v) for v in vals]))
        return o
    if op in ('square', 'cube'):
        fac = sf.square if op == 'square' else vf.cube
        if mode == 'same':
            pobj = mk('size=lower_left', b['ll'])
            return fac(size=pobj, lower_left=pobj), objs
        ll = mk('lower_left', b['ll'])
        if mode == 'reused':
            fac(size=ll)                     # an earlier call that receives the same list as its size
            return fac(b['size'][0], lower_left=ll), objs
        size = mk('size', b['size'])
        return fac(size=size, lower_left=ll), objs
    if op == 'line':
        a_, b_ = mk('a', b['a']), mk('b', b['b'])
        return cf.line(a_, b_, relative=b['relative']), objs
    # circle / cylinder / disc
    if mode in ('same', 'reused'):
        v = mk('center=normal', b['center'])
        c_, n_ = v, v
        if mode == 'reused':
            vf.cube(size=v)                  # an earlier call that scales with the same list
    else:
        c_, n_ = mk('center', b['center']), mk('normal', b['normal'])
    x_ = mk('xaxis', b['xaxis'])
    if op == 'circle':
        return cf.circle(b['r'], c_, n_, b['type'], x_), objs
    if op == 'cylinder':
        return sf.cylinder(b['r'], b['h'], c_, n_, x_), objs
    if op == 'disc':
        return sf.disc(b['r'], c_, n_, b['type'], x_), objs
    raise KeyError(op)


def _call(sp, s):
    import importlib
    if s['op'] == 'argobj':
        return _call_argobj(sp, s)[0]
    cf = importlib.import_module('splipy.curve_factory')
    sf = importlib.import_module('splipy.surface_factory')
    vf = importlib.import_module('splipy.volume_factory')
    ut = importlib.import_module('splipy.utils')
    op = s['op']
    if op == 'line':
        return cf.line(tuple(s['a']), tuple(s['b']), relative=s['relative'])
    if op == 'polygon':
        kw = {'relative': s['relative']}
        if 't' in s:
            kw['t'] = s['t']
        return cf.polygon(*[list(p) for p in s['pts']], **kw)
    if op == 'ngon':
        return cf.n_gon(s['n'], s['r'], s['center'], s['normal'])
    if op == 'circle':
        return cf.circle(s['r'], s['center'], s['normal'], s['type'], s['xaxis'])
    if op == 'ellipse':
        return cf.ellipse(s['r1'], s['r2'], s['center'], s['normal'], s['type'], s['xaxis'])
    if op == 'arc':
        return cf.circle_segment(s['theta'], s['r'], s['center'], s['normal'], s['xaxis'])
    if op == 'three':
        return cf.circle_segment_from_three_points(*s['x'])
    if op == 'square':
        return sf.square(s['size'][0] if s['scalar'] else tuple(s['size']), tuple(s['ll']))
    if op == 'cube':
        return vf.cube(s['size'][0] if s['scalar'] else tuple(s['size']), tuple(s['ll']))
    if op == 'disc':
        return sf.disc(s['r'], s['center'], s['normal'], s['type'], s['xaxis'])
    if op == 'sphere':
        return sf.sphere(s['r'], s['center'], s['normal'], s['xaxis'])
    if op == 'cylinder':
        return sf.cylinder(s['r'], s['h'], s['center'], s['normal'], s['xaxis'])
    if op == 'torus':
        return sf.torus(s['r1'], s['r2'], s['center'], s['normal'], s['xaxis'])
    if op == 'sphere_vol':
        return vf.sphere(s['r'], s['center'], s['type'])
    if op == 'torus_vol':
        return vf.torus(s['r1'], s['r2'], s['center'], s['normal'], s['xaxis'], s['type'])
    if op == 'cylinder_vol':
        return vf.cylinder(s['r'], s['h'], s['center'], s['normal'], s['xaxis'], s['type'])
    if op == 'revolve':
        return sf.revolve(gen.mk_object(sp, s['obj']), s['theta'], s['axis'])
    if op == 'revolve_vol':
        return vf.revolve(gen.mk_object(sp, s['obj']), s['theta'], s['axis'])
    if op == 'extrude':
        return sf.extrude(gen.mk_object(sp, s['obj']), s['amount'])
    if op == 'extrude_vol':
        return vf.extrude(gen.mk_object(sp, s['obj']), s['amount'])
    if op == 'local_x':
        return ut.rotate_local_x_axis(s['xaxis'], s['normal'])
    if op == 'flip':
        return ut.flip_and_move_plane_geometry(gen.mk_object(sp, s['obj']), s['center'], s['normal'])
    raise KeyError(op)


def run_impl(sp, s):
    with np.errstate(all='ignore'):
        r = _call(sp, s)
    if s['op'] == 'local_x':
        return [cos(r), sin(r)]
    return gen.obj_observables(r)


# ---------------------------------------------------------------------------------------------
# model request lines

def _three_aux(s):
    x = s['x']
    p = [np.array((list(t) + [0, 0, 0])[:3], dtype=float) for t in x]
    nrm = np.cross(p[1] - p[0], p[2] - p[0])
    A = np.vstack((2 * (p[1] - p[0]), 2 * (p[2] - p[0]), nrm))
    b = np.array([p[1] @ p[1] - p[0] @ p[0], p[2] @ p[2] - p[0] @ p[0], nrm @ p[0]])
    try:
        c = np.linalg.solve(A, b)
    except np.linalg.LinAlgError:
        c = np.zeros(3)
    radius = float(np.linalg.norm(p[2] - c))
    v0, v1, v2 = p[0] - c, p[1] - c, p[2] - c
    thS = float(np.arctan2(np.linalg.norm(np.cross(v0, v2)), np.dot(v0, v2)))
    thL = 2 * pi - thS
    w2 = np.cross(p[0] - p[2], p[1] - p[2])
    nC = np.cross(v0, v1)

    def aux(n):
        if not np.any(n):
            return [1, 0, 1, 0], 1
        a = float_naux([float(t) for t in n])
        lam = float_lam(v0.tolist(), a)
        return a, (lam if lam else 1)
    aW, lamW = aux(w2)
    aC, lamC = aux(nC)
    return radius, thS, arc_aux(thS), thL, arc_aux(thL), aW, lamW, aC, lamC


def _haxis(s):
    ax = np.array(s['normal'], dtype=float)
    return (s['h'] * ax / np.linalg.norm(ax)).tolist()


def model_line(s):
    if s['op'] == 'argobj':
        return model_line(s['base'])
    op = s['op']
    ex = s.get('exact') or {}
    if op == 'line':
        return line('f_line', s['a'], s['b'], s['relative'])
    if op == 'polygon':
        if 't' in s:
            return line('f_polygon_t', s['pts'], s['t'], s['relative'])
        d = [sqrt(sum((b - a) ** 2 for a, b in zip(p, q))) for p, q in zip(s['pts'][:-1], s['pts'][1:])]
        return line('f_polygon_auto', s['pts'], d, s['relative'])
    if op == 'ngon':
        a, _ = placement(s)
        n = s['n']
        dt = 2 * pi / n
        return line('f_ngon', n, s['r'], s['center'], s['normal'], [[cos(i * dt), sin(i * dt)] for i in range(n)], a)
    if op in ('circle', 'disc'):
        a, lam = placement(s)
        return line('f_' + op, CONSTS, s['r'], s['center'], s['normal'], Word(s['type']), s['xaxis'], a, lam)
    if op == 'ellipse':
        a, lam = placement(s)
        return line('f_ellipse', CONSTS, s['r1'], s['r2'], s['center'], s['normal'], Word(s['type']), s['xaxis'], a, lam)
    if op == 'arc':
        a, lam = placement(s)
        return line('f_arc', CONSTS, s['theta'], s['r'], s['center'], s['normal'], s['xaxis'], arc_aux(s['theta'], ex), a, lam)
    if op == 'three':
        radius, thS, arcS, thL, arcL, aW, lamW, aC, lamC = _three_aux(s)
        return line('f_three' if three_point_form() == 'signs' else 'f_three_dot', CONSTS, tol_cp(), s['x'][0], s['x'][1], s['x'][2], radius, thS, arcS, thL, arcL, aW, lamW)
    if op == 'square':
        return line('f_square', s['size'], s['ll'])
    if op == 'cube':
        return line('f_cube', s['size'], s['ll'])
    if op == 'sphere':
        a, lam = placement(s)
        return line('f_sphere', CONSTS, s['r'], s['center'], s['normal'], s['xaxis'], a, lam)
    if op == 'cylinder':
        a, lam = placement(s)
        return line('f_cylinder', CONSTS, s['r'], _haxis(s), s['center'], s['normal'], s['xaxis'], a, lam)
    if op == 'torus':
        a, lam = placement(s)
        return line('f_torus', CONSTS, s['r1'], s['r2'], s['center'], s['normal'], s['xaxis'], a, lam)
    if op == 'sphere_vol':
        if s['type'] != 'radial':
            return line('f_sphere_vol_sq', [S2_F, F(sqrt(3)), F(sqrt(6))], s['r'], s['center'])
        return line('f_sphere_vol', CONSTS, s['r'], s['center'])
    if op == 'torus_vol':
        a, lam = placement(s)
        return line('f_torus_vol', CONSTS, s['r1'], s['r2'], s['center'], s['normal'], s['xaxis'], Word(s['type']), a, lam)
    if op == 'cylinder_vol':
        a, lam = placement(s)
        return line('f_cylinder_vol', CONSTS, s['r'], _haxis(s), s['center'], s['normal'], s['xaxis'], Word(s['type']), a, lam)
    if op in ('revolve', 'revolve_vol'):
        a = [F(x) for x in ex['naux']] if 'naux' in ex else float_naux_raw(s['axis'])
        return line('f_' + op, CONSTS, gen.enc_object(s['obj']), s['theta'], arc_aux(s['theta'], ex), a)
    if op in ('extrude', 'extrude_vol'):
        return line('f_extrude', gen.enc_object(s['obj']), s['amount'])
    if op == 'local_x':
        a, lam = placement(s)
        return line('f_local_x', s['xaxis'], a, lam)
    if op == 'flip':
        a, _ = placement(s)
        return line('f_flip', gen.enc_object(s['obj']), s['center'], s['normal'], a)
    raise KeyError(op)


# ---------------------------------------------------------------------------------------------
# comparison

def compare(s, iv, mv):
    from vlib.compare import diff, Err
    if s['op'] == 'argobj':
        s = s['base']
    from vlib.val import is_err
    if isinstance(iv, Err) or is_err(mv) or s['op'] == 'local_x':
        return diff(iv, mv, RTOL, 1e-9)
    if not (isinstance(mv, list) and len(mv) == 4):
        return 'model returned %r' % (mv,)
    ib, ish, ifl, irat = iv
    mb, msh, mfl, mrat = mv
    ktol, rtol = KTOL, RTOL
    if len(ib) != len(mb):
        return 'number of bases: impl %d model %d' % (len(ib), len(mb))
    for k, (x, y) in enumerate(zip(ib, mb)):
        if x[0] != y[0] or x[2] != y[2]:
            return 'basis %d: order/periodic impl (%d,%d) model (%s,%s)' % (k, x[0], x[2], y[0], y[2])
        if len(x[1]) != len(y[1]):
            return 'basis %d: knot count impl %d model %d' % (k, len(x[1]), len(y[1]))
        sc = max([1.0] + [abs(float(t)) for t in y[1]])
        for i, (a, b) in enumerate(zip(x[1], y[1])):
            if not abs(a - float(b)) <= ktol * sc:
                return 'basis %d knot %d: impl %.17g model %.17g' % (k, i, a, float(b))
    if [int(t) for t in msh] != list(ish):
        return 'shape impl %s model %s' % (ish, [int(t) for t in msh])
    d = diff(ifl, mfl, rtol, ATOL, path='$cps')
    if d:
        return d
    if str(mrat) != ('true' if irat else 'false'):
        return 'rational impl %s model %s' % (irat, mrat)
    return None


# ---------------------------------------------------------------------------------------------
# oracle

def _span_params(b, extra=0):
    """2p+1 (+extra) points on every knot span of a real basis, ends included."""
    p = b.order
    ks = b.knot_spans() if hasattr(b, 'knot_spans') else sorted(set(b.knots))
    ks = [k for k in ks if b.start() - 1e-14 <= k <= b.end() + 1e-14]
    out = []
    for a, e in zip(ks[:-1], ks[1:]):
        out.extend(np.linspace(a, e, 2 * p + 1 + extra).tolist()[:-1])
    out.append(ks[-1])
    return np.array(out)


def _pad(P):
    P = np.atleast_2d(np.asarray(P, dtype=float))
    if P.shape[-1] == 2:
        P = np.concatenate([P, np.zeros(P.shape[:-1] + (1,))], axis=-1)
    return P


def _v3(x):
    return np.array((list(x) + [0, 0, 0])[:3], dtype=float)


def _frame(s):
    n = _v3(s['normal'])
    n = n / np.linalg.norm(n)
    xa = s.get('xaxis')
    if xa is None:
        return n, None, None
    x = _v3(xa)
    x = x - (x @ n) * n
    x = x / np.linalg.norm(x)
    return n, x, np.cross(n, x)


def _on_circle(P, c, n, r, sc, what='circle'):
    f = []
    d = P - c
    e1 = np.max(np.abs(np.linalg.norm(d, axis=-1) - r))
    e2 = np.max(np.abs(d @ n))
    if not e1 <= RTOL * sc:
        f.append('%s: |x-c| deviates from r by %.3g' % (what, e1))
    if not e2 <= RTOL * sc:
        f.append('%s: (x-c).n deviates from 0 by %.3g' % (what, e2))
    return f


def _ccw(P, c, n, sc, what):
    d = P - c
    cr = np.cross(d[:-1], d[1:]) @ n
    if not np.all(cr > 0):
        return ['%s: not counter-clockwise about the normal (min cross %.3g)' % (what, cr.min())]
    return []


def _angles(P, c, x, y):
    d = P - c
    return np.arctan2(d @ y, d @ x)


def _swept(P, c, n):
    d = P - c
    cr = np.cross(d[:-1], d[1:]) @ n
    dt = np.einsum('ij,ij->i', d[:-1], d[1:])
    return float(np.sum(np.arctan2(cr, dt)))


def _scale(s, *vals):
    c = s.get('center') or [0]
    if s.get('nkind') == 'tiny-center':
        return max([abs(float(v)) for v in c] + [abs(float(v)) for v in vals])
    return max([1.0] + [abs(float(v)) for v in c] + [abs(float(v)) for v in vals])


def _grid(obj, extra=0):
    return [_span_params(b, extra) for b in obj.bases]


def oracle(sp, s):
    from vlib.compare import Err
    with np.errstate(all='ignore'):
        try:
            obj = _call(sp, s)
        except Exception as e:  # noqa: BLE001
            return _oracle_raise(s, e)
        if s.get('raises'):
            return ['expected an exception for inadmissible arguments, got an object']
        if s['op'] == 'argobj':
            return _oracle_argobj(sp, s)
        f = _ORACLES[s['op']](sp, s, obj)
        if f and _signed_zero_affected(s):
            # atan2(+-0., -0.) = +-pi in rotate_local_x_axis while flip_and_move skips its rotation (normal ~ e_z)
            f = ['[signed-zero-normal-half-turn] ' + re.sub(r'^\[[^\]]*\] ', '', m) for m in f]
        if f and s.get('nkind') == 'tiny-center':
            # flip_and_move_plane_geometry skips the translation when np.allclose(center, 0) (absolute 1e-8)
            f = ['[center-within-1e-8-of-origin-ignored] ' + m for m in f]
        return f


def _oracle_argobj(sp, s):
    """Shape equations of the base factory, plus: the caller's argument objects are unchanged by the call(s)
    (length and values) and the result has the documented physical dimension."""
    obj, objs = _call_argobj(sp, s)
    b = s['base']
    f = list(_ORACLES[b['op']](sp, b, obj))
    for name, o, snap in objs:
        now = [float(v) for v in o]
        if len(now) != len(snap) or now != snap:
            f.append('[argument-object-mutated] the caller\'s %s object %s was changed by the call: %s -> %s' % (
                type(o).__name__, name, snap, now))
    want = {'square': max(2, len(b.get('ll', []))), 'cube': 3, 'line': len(b.get('a', []))}.get(b['op'])
    if b['op'] in ('circle', 'disc'):
        c, n = b['center'], b['normal']
        want = 2 if (np.allclose(n, [0, 0, 1]) and (np.allclose(c, 0) or len(c) <= 2)) else 3
    if b['op'] == 'cylinder':
        want = 3
    if want is not None and obj.dimension != want:
        f.append('[wrong-physical-dimension] %s: the result lives in %dD, documented/requested %dD' % (b['op'], obj.dimension, want))
    return f


def _signed_zero_affected(s):
    if s['op'] == 'argobj':
        return False
    """The effective normal has no xy-part, a non-zero raw azimuth (signed zeros) and is ~ e_z (flip skipped)."""
    if s['op'] == 'three':
        p = [_v3(t) for t in s['x']]
        n = np.cross(p[0] - p[2], p[1] - p[2])
    else:
        n = s.get('normal')
        if n is None:
            return False
        n = np.array([float(t) for t in n])
    return bool(n[0] == 0 and n[1] == 0 and atan2(n[1], n[0]) != 0 and np.allclose(n, [0, 0, 1]))


def _oracle_raise(s, e):
    if s.get('raises'):
        return []
    if s['op'] == 'three' and 'NaN' in str(e):
        # arccos argument rounds outside [-1,1] when x0 and x2 are antipodal (right angle at x1)
        return ['[three-point-arc-nan-half-turn] admissible triple (right angle at x1) raised %s: %s' % (type(e).__name__, str(e)[:80])]
    return ['admissible arguments raised %s: %s' % (type(e).__name__, str(e)[:100])]


def o_line(sp, s, c):
    a = np.array(s['a'], dtype=float)
    b = np.array(s['b'], dtype=float) + (a if s['relative'] else 0)
    f = []
    if c.order(0) != 2 or c.rational:
        f.append('line is not a linear non-rational curve')
    t = np.linspace(c.start(0), c.end(0), 5)
    want = a + np.outer((t - t[0]) / (t[-1] - t[0]), b - a)
    if not np.allclose(c(t), want, rtol=0, atol=RTOL * _scale(s, *a, *b)):
        f.append('line does not interpolate its end points linearly')
    return f


def o_polygon(sp, s, c):
    pts = np.array(s['pts'], dtype=float)
    if s['relative']:
        pts = np.cumsum(pts, axis=0)
    f = []
    if c.order(0) != 2:
        f.append('polygon not linear')
    k = c.knots(0)
    if len(k) != len(pts):
        return f + ['polygon: %d knots for %d points' % (len(k), len(pts))]
    sc = _scale(s, *pts.reshape(-1))
    if not np.allclose(c(k), pts, rtol=0, atol=RTOL * sc):
        f.append('polygon does not pass through its points at the knots')
    mid = (np.array(k[:-1]) + np.array(k[1:])) / 2
    if not np.allclose(c(mid), (pts[:-1] + pts[1:]) / 2, rtol=0, atol=RTOL * sc):
        f.append('polygon is not linear between its points')
    if 't' in s and not np.allclose(k, s['t'], rtol=0, atol=1e-12):
        f.append('polygon knots differ from the requested t')
    return f


def o_ngon(sp, s, c):
    n, _, _ = _frame(s)
    ctr = _v3(s['center'])
    r = s['r']
    sc = _scale(s, r)
    N = s['n']
    f = []
    if c.order(0) != 2 or not c.periodic(0):
        f.append('n_gon is not a linear periodic curve')
    k = np.arange(N + 1, dtype=float)
    P = _pad(c(k))
    f += _on_circle(P, ctr, n, r, sc, 'n_gon vertices')
    d = P - ctr
    cr = np.cross(d[:-1], d[1:]) @ n
    dt = np.einsum('ij,ij->i', d[:-1], d[1:])
    ang = np.arctan2(cr, dt)
    if not np.allclose(ang, 2 * pi / N, rtol=0, atol=1e-9):
        f.append('n_gon vertices not at equal counter-clockwise angles 2pi/n: %s' % ang.tolist())
    mid = _pad(c(k[:-1] + 0.5))
    if not np.allclose(mid, (P[:-1] + P[1:]) / 2, rtol=0, atol=RTOL * sc):
        f.append('n_gon edges not straight')
    return f


def _circle_like(s, c, r1, r2, label):
    n, x, y = _frame(s)
    ctr = _v3(s['center'])
    sc = _scale(s, r1, r2)
    t = _span_params(c.bases[0])
    P = _pad(c(t))
    d = P - ctr
    f = []
    u, v, h = d @ x, d @ y, d @ n
    e = np.max(np.abs(np.sqrt((u / r1) ** 2 + (v / r2) ** 2) - 1))
    if not e <= RTOL * sc / min(r1, r2, 1):
        f.append('%s: implicit equation violated by %.3g' % (label, e))
    if not np.max(np.abs(h)) <= RTOL * sc:
        f.append('%s: not in the plane through the centre with the requested normal (%.3g)' % (label, np.max(np.abs(h))))
    start = _pad(c(0.0))[0]
    if not np.linalg.norm(start - (ctr + r1 * x)) <= RTOL * sc:
        lab = '[near-ez-normal-misplaced] ' if s.get('nkind') == 'near-ez' else ''
        f.append('%s%s: parameter 0 is at %s, requested x-axis point %s' % (lab, label, start.tolist(), (ctr + r1 * x).tolist()))
    f += _ccw(P, ctr, n, sc, label)
    sw = _swept(P, ctr, n)
    if not abs(sw - 2 * pi) <= 1e-8:
        f.append('%s: swept angle %.12g, expected 2pi' % (label, sw))
    if not c.periodic(0):
        f.append('%s: not periodic' % label)
    return f


def o_circle(sp, s, c):
    return _circle_like(s, c, s['r'], s['r'], 'circle')


def o_ellipse(sp, s, c):
    return _circle_like(s, c, s['r1'], s['r2'], 'ellipse')


def o_arc(sp, s, c):
    n, x, y = _frame(s)
    ctr = _v3(s['center'])
    r, th = s['r'], s['theta']
    sc = _scale(s, r)
    f = []
    if th == 2 * pi:
        lo, hi = 0.0, 2 * pi
    else:
        lo, hi = min(0.0, th), max(0.0, th)
    if not (abs(c.start(0) - lo) <= 1e-12 and abs(c.end(0) - hi) <= 1e-12):
        f.append('arc: parameter domain [%r,%r], expected [%r,%r]' % (c.start(0), c.end(0), lo, hi))
        return f
    t = _span_params(c.bases[0])
    P = _pad(c(t))
    f += _on_circle(P, ctr, n, r, sc, 'arc')

    def at(a):
        return ctr + r * (cos(a) * x + sin(a) * y)
    p0 = _pad(c(0.0 if th != 2 * pi else 0.0))[0]
    if not np.linalg.norm(p0 - at(0)) <= RTOL * sc:
        lab = '[arc-2pi-ignores-xaxis] ' if th == 2 * pi else ''
        f.append('%sarc: parameter 0 is at %s, requested x-axis point %s' % (lab, p0.tolist(), at(0).tolist()))
    # knots and span mid-points are at their own angle; the far end is at angle theta
    ks = np.array(c.knots(0))
    chk = np.concatenate([ks, (ks[:-1] + ks[1:]) / 2])
    Q = _pad(c(chk))
    want = np.array([at(a) for a in chk])
    if not np.allclose(Q, want, rtol=0, atol=RTOL * sc):
        if not (th == 2 * pi and f):
            f.append('arc: points at knots / span mid-points are not at the angle equal to their parameter')
    f += _ccw(P, ctr, n, sc, 'arc')
    sw = _swept(P, ctr, n)
    if not abs(sw - abs(th)) <= 1e-8:
        f.append('arc: swept angle %.12g, expected |theta| = %.12g' % (sw, abs(th)))
    return f


def _circum(p):
    a, b = p[1] - p[0], p[2] - p[0]
    ab = np.cross(a, b)
    c = p[0] + np.cross((a @ a) * b - (b @ b) * a, ab) / (2 * (ab @ ab))
    return c, float(np.linalg.norm(p[0] - c)), ab / np.linalg.norm(ab)


def _min_dist(c, x, lo, hi):
    t = np.linspace(lo, hi, 1201)
    d = np.linalg.norm(_pad(c(t)) - x, axis=-1)
    i = int(np.argmin(d))
    a, b = t[max(i - 1, 0)], t[min(i + 1, len(t) - 1)]
    for _ in range(80):
        m1, m2 = a + (b - a) / 3, b - (b - a) / 3
        if np.linalg.norm(_pad(c(m1))[0] - x) < np.linalg.norm(_pad(c(m2))[0] - x):
            b = m2
        else:
            a = m1
    return min(float(d[i]), float(np.linalg.norm(_pad(c((a + b) / 2))[0] - x)))


def o_three(sp, s, c):
    p = [_v3(t) for t in s['x']]
    ctr, r, n = _circum(p)
    sc = max(r, np.max(np.abs(p)))     # relative to the size of the configuration
    f = []
    want_dim = max(len(t) for t in s['x'])
    if c.dimension != want_dim:
        f.append('three-point arc: dimension %d, expected %d' % (c.dimension, want_dim))
    t = _span_params(c.bases[0])
    P = _pad(c(t))
    f += _on_circle(P, ctr, n, r, sc, 'three-point arc (circumcircle)')
    a, e = _pad(c(c.start(0)))[0], _pad(c(c.end(0)))[0]
    if not np.linalg.norm(a - p[0]) <= RTOL * sc:
        f.append('three-point arc: starts at %s, not at x0' % a.tolist())
    v0, v2 = p[0] - ctr, p[2] - ctr
    half = np.linalg.norm(v0 + v2) < 1e-6 * r     # x0, x2 antipodal: arccos is accurate to sqrt(eps) only
    lab = '[three-point-arc-half-turn-accuracy] ' if half else '[three-point-arc-wrong-end] '
    # the code compares the components of two normals with an ABSOLUTE tolerance: tiny configurations
    import importlib
    tol = float(importlib.import_module('splipy.state').controlpoint_absolute_tolerance)
    w2 = np.cross(p[0] - p[2], p[1] - p[2])
    if not half and np.all(np.abs(w2 - np.cross(v0, v2)) < tol) and np.dot(w2, np.cross(v0, v2)) < 0:
        lab = '[three-point-arc-small-radius-absolute-tolerance] '
    bad_end = False
    if not np.linalg.norm(e - p[2]) <= RTOL * sc:
        bad_end = True
        f.append('%sthree-point arc: ends at %s, not at x2 = %s (distance %.3g)' % (
            lab, e.tolist(), p[2].tolist(), np.linalg.norm(e - p[2])))
    md = _min_dist(c, p[1], c.start(0), c.end(0))
    if not md <= RTOL * sc:
        f.append('%sthree-point arc: does not pass through x1 (min distance %.3g)' % (lab if bad_end else '', md))
    return f


def o_square(sp, s, q):
    size = list(s['size']) + [s['size'][-1]] * (3 - len(s['size']))   # short sizes repeat their last entry
    ll = np.array(s['ll'], dtype=float)
    u = np.linspace(0, 1, 3)
    P = q(u, u)
    f = []
    if q.order() != (2, 2) or q.rational or q.start() != (0, 0) or q.end() != (1, 1):
        f.append('square: not a bilinear patch on the unit parameter square')
    want = np.zeros(P.shape)
    want[..., :len(ll)] = ll
    want[..., 0] += u[:, None] * size[0]
    want[..., 1] += u[None, :] * size[1]
    if not np.allclose(P, want, rtol=0, atol=RTOL * max(1, np.max(np.abs(want)))):
        f.append('square: S(u,v) != lower_left + (u*sx, v*sy)')
    return f


def o_cube(sp, s, q):
    size = list(s['size']) + [s['size'][-1]] * (3 - len(s['size']))   # short sizes repeat their last entry
    ll = np.array(s['ll'], dtype=float)
    u = np.linspace(0, 1, 3)
    P = q(u, u, u)
    f = []
    if q.order() != (2, 2, 2) or q.rational or q.start() != (0, 0, 0) or q.end() != (1, 1, 1):
        f.append('cube: not a trilinear patch on the unit parameter cube')
    want = np.zeros(P.shape) + ll
    want[..., 0] += u[:, None, None] * size[0]
    want[..., 1] += u[None, :, None] * size[1]
    want[..., 2] += u[None, None, :] * size[2]
    if not np.allclose(P, want, rtol=0, atol=RTOL * max(1, np.max(np.abs(want)))):
        f.append('cube: V(u,v,w) != lower_left + (u*sx, v*sy, w*sz)')
    return f


def _local(s, P):
    n, _, _ = _frame(s)
    d = _pad(P.reshape(-1, P.shape[-1])) - _v3(s['center'])
    h = d @ n
    rad = np.linalg.norm(d - np.outer(h, n), axis=-1)
    return d, h, rad, n


def o_disc(sp, s, q):
    r = s['r']
    sc = _scale(s, r)
    g = _grid(q)
    P = q(*g)
    d, h, rad, n = _local(s, P)
    f = []
    if not np.max(np.abs(h)) <= RTOL * sc:
        f.append('disc: not planar (%.3g)' % np.max(np.abs(h)))
    if not np.max(rad) <= r + RTOL * sc:
        f.append('disc: points outside the radius (%.3g)' % (np.max(rad) - r))
    if s['type'] == 'radial':
        B = q(np.array([q.end(0)]), g[1])
        C = q(np.array([q.start(0)]), g[1])
        if abs(q.end(0) - r) > 1e-12 or abs(q.end(1) - 2 * pi) > 1e-12:
            f.append('disc: parameter domain %s, expected (0,r)x(0,2pi)' % (q.end(),))
        if not np.max(np.linalg.norm(_pad(C.reshape(-1, C.shape[-1])) - _v3(s['center']), axis=-1)) <= RTOL * sc:
            f.append('disc: u=0 is not the centre')
        _, _, rb, _ = _local(s, B)
    else:
        B = np.concatenate([q(np.array([a]), g[1]).reshape(-1, P.shape[-1]) for a in (0.0, 1.0)] +
                           [q(g[0], np.array([a])).reshape(-1, P.shape[-1]) for a in (0.0, 1.0)])
        _, _, rb, _ = _local(s, B)
    if not np.max(np.abs(rb - r)) <= RTOL * sc:
        f.append('disc: boundary not on the circle of radius r (%.3g)' % np.max(np.abs(rb - r)))
    return f


def o_sphere(sp, s, q):
    r = s['r']
    sc = _scale(s, r)
    g = _grid(q)
    P = q(*g)
    d, h, rad, n = _local(s, P)
    f = []
    e = np.max(np.abs(np.linalg.norm(d, axis=-1) - r))
    if not e <= RTOL * sc:
        f.append('sphere: |x-c| deviates from r by %.3g' % e)
    _, x, y = _frame(s)
    M = _pad(q(g[0], np.array([0.0])).reshape(-1, P.shape[-1])) - _v3(s['center'])
    if not (np.max(np.abs(M @ y)) <= RTOL * sc and np.min(M @ x) >= -RTOL * sc):
        f.append('sphere: the seam v=0 is not the meridian through the requested x-axis')
    return f


def o_cylinder(sp, s, q):
    r, hh = s['r'], s['h']
    sc = _scale(s, r, hh)
    g = _grid(q)
    P = q(*g)
    d, h, rad, n = _local(s, P)
    f = []
    if not np.max(np.abs(rad - r)) <= RTOL * sc:
        f.append('cylinder: distance to the axis deviates from r by %.3g' % np.max(np.abs(rad - r)))
    T = q(g[0], np.array([q.end(1)]))
    _, ht, _, _ = _local(s, T)
    B = q(g[0], np.array([q.start(1)]))
    _, hb, _, _ = _local(s, B)
    if not np.max(np.abs(hb)) <= RTOL * sc:
        f.append('cylinder: bottom circle not in the plane of the centre')
    if not np.max(np.abs(ht - hh)) <= RTOL * sc * max(1, np.linalg.norm(s['normal'])):
        f.append('[cylinder-height-scaled-by-axis-norm] cylinder: height %.12g, requested %.12g (|axis| = %.6g)' % (
            float(ht[0]), hh, np.linalg.norm(s['normal'])))
    _, x, y = _frame(s)
    p0 = _pad(q(0.0, 0.0))[0]
    if not np.linalg.norm(p0 - (_v3(s['center']) + r * x)) <= RTOL * sc:
        f.append('cylinder: u=0 not on the requested x-axis')
    return f


def o_torus(sp, s, q):
    r1, r2 = s['r1'], s['r2']
    sc = _scale(s, r1, r2)
    P = q(*_grid(q))
    d, h, rad, n = _local(s, P)
    e = np.max(np.abs(np.sqrt((rad - r2) ** 2 + h ** 2) - r1))
    if not e <= RTOL * sc:
        return ['torus: implicit equation violated by %.3g' % e]
    return []


def o_sphere_vol(sp, s, q):
    r = s['r']
    sc = _scale(s, r)
    g = _grid(q)
    P = q(*g)
    ctr = _v3(s['center'])
    dist = np.linalg.norm(P.reshape(-1, 3) - ctr, axis=-1)
    f = []
    if not np.max(dist) <= r + RTOL * sc:
        f.append('solid sphere: points outside the radius (%.3g)' % (np.max(dist) - r))
    if s['type'] == 'radial':
        S = q(g[0], g[1], np.array([q.start(2)]))
        C = q(g[0], g[1], np.array([q.end(2)]))
        if not np.max(np.linalg.norm(C.reshape(-1, 3) - ctr, axis=-1)) <= RTOL * sc:
            f.append('solid sphere: inner face is not the centre')
        faces = [S]
    else:
        faces = []
        for dct in range(3):
            for end in (q.start(dct), q.end(dct)):
                a = list(g)
                a[dct] = np.array([end])
                faces.append(q(*a))
    for S in faces:
        e = np.max(np.abs(np.linalg.norm(S.reshape(-1, 3) - ctr, axis=-1) - r))
        if not e <= RTOL * sc:
            f.append('solid sphere: boundary face deviates from the sphere by %.3g' % e)
            break
    return f


def o_torus_vol(sp, s, q):
    r1, r2 = s['r1'], s['r2']
    sc = _scale(s, r1, r2)
    g = _grid(q)
    P = q(*g)
    d, h, rad, n = _local(s, P)
    rho = np.sqrt((rad - r2) ** 2 + h ** 2)
    f = []
    if not np.max(rho) <= r1 + RTOL * sc:
        f.append('solid torus: points outside the tube (%.3g)' % (np.max(rho) - r1))
    if s['type'] == 'radial':
        B = q(np.array([q.end(0)]), g[1], g[2])
    else:
        B = np.concatenate([q(np.array([a]), g[1], g[2]).reshape(-1, 3) for a in (q.start(0), q.end(0))] +
                           [q(g[0], np.array([a]), g[2]).reshape(-1, 3) for a in (q.start(1), q.end(1))])
    d, h, rad, n = _local(s, B)
    e = np.max(np.abs(np.sqrt((rad - r2) ** 2 + h ** 2) - r1))
    if not e <= RTOL * sc:
        f.append('solid torus: boundary deviates from the torus by %.3g' % e)
    return f


def o_cylinder_vol(sp, s, q):
    r, hh = s['r'], s['h']
    sc = _scale(s, r, hh)
    g = _grid(q)
    P = q(*g)
    d, h, rad, n = _local(s, P)
    f = []
    if not np.max(rad) <= r + RTOL * sc:
        f.append('solid cylinder: points outside the radius (%.3g)' % (np.max(rad) - r))
    if s['type'] == 'radial':
        B = q(np.array([q.end(0)]), g[1], g[2])
    else:
        B = np.concatenate([q(np.array([a]), g[1], g[2]).reshape(-1, 3) for a in (q.start(0), q.end(0))] +
                           [q(g[0], np.array([a]), g[2]).reshape(-1, 3) for a in (q.start(1), q.end(1))])
    _, _, rb, _ = _local(s, B)
    if not np.max(np.abs(rb - r)) <= RTOL * sc:
        f.append('solid cylinder: mantle deviates from radius r by %.3g' % np.max(np.abs(rb - r)))
    _, hb, _, _ = _local(s, q(g[0], g[1], np.array([q.start(2)])))
    _, ht, _, _ = _local(s, q(g[0], g[1], np.array([q.end(2)])))
    if not np.max(np.abs(hb)) <= RTOL * sc:
        f.append('solid cylinder: bottom not in the plane of the centre')
    if not np.max(np.abs(ht - hh)) <= RTOL * sc * max(1, np.linalg.norm(s['normal'])):
        f.append('[cylinder-height-scaled-by-axis-norm] solid cylinder: height %.12g, requested %.12g (|axis| = %.6g)' % (
            float(ht[0]), hh, np.linalg.norm(s['normal'])))
    return f


def _rodrigues(axis, a):
    k = np.array(axis, dtype=float)
    k = k / np.linalg.norm(k)
    K = np.array([[0, -k[2], k[1]], [k[2], 0, -k[0]], [-k[1], k[0], 0]])
    return np.eye(3) + sin(a) * K + (1 - cos(a)) * (K @ K)


def o_revolve(sp, s, q):
    prof = gen.mk_object(sp, s['obj'])
    th = s['theta']
    pd = prof.pardim
    gp = [_span_params(b) for b in prof.bases]
    C = prof(*gp)
    C = _pad(C.reshape(-1, C.shape[-1]))
    sc = max(1.0, np.max(np.abs(C)))
    f = []
    lo, hi = (0.0, 2 * pi) if th == 2 * pi else (min(0.0, th), max(0.0, th))
    if not (abs(q.start(pd) - lo) <= 1e-12 and abs(q.end(pd) - hi) <= 1e-12):
        return ['revolve: sweep parameter domain [%r,%r], expected [%r,%r]' % (q.start(pd), q.end(pd), lo, hi)]
    ks = np.array(q.knots(pd))
    axis = np.array(s['axis'], dtype=float)
    ah = axis / np.linalg.norm(axis)
    rad = C - np.outer(C @ ah, ah)
    iref = int(np.argmax(np.linalg.norm(rad, axis=-1)))
    has_ref = np.linalg.norm(rad[iref]) > 1e-6 * sc
    lab = '[volume-revolve-negative-theta-reversed] ' if (s['op'] == 'revolve_vol' and th < 0) else ''

    def section(v, a):
        Sv = q(*(gp + [np.array([v])])).reshape(-1, 3)
        if a is None:
            # angle of this section read off one profile point; every other point must agree with it
            rv = Sv[iref] - (Sv[iref] @ ah) * ah
            a = atan2(np.cross(rad[iref], rv) @ ah, rad[iref] @ rv) if has_ref else v
        return a, float(np.max(np.abs(Sv - C @ _rodrigues(axis, a).T)))

    for k0, k1 in zip(ks[:-1], ks[1:]):
        # knots and span mid-points: the section is the profile rotated by the parameter itself
        for v in (k0, (k0 + k1) / 2, k1):
            _, e = section(v, v)
            if not e <= 10 * RTOL * sc:
                return f + ['%srevolve: section at parameter %.6g is not the profile rotated by that angle about the axis '
                            '(error %.3g)' % (lab, v, e)]
        # elsewhere: the profile rotated by one angle, which lies inside the span
        for fr in (0.2, 0.7):
            v = k0 + (k1 - k0) * fr
            a, e = section(v, None)
            if not e <= 10 * RTOL * sc:
                return f + ['%srevolve: section at parameter %.6g is not a rotated copy of the profile (error %.3g)' % (lab, v, e)]
            if has_ref and not (a - k0) % (2 * pi) <= (k1 - k0) + 1e-9:
                return f + ['%srevolve: section angle %.6g at parameter %.6g is outside its span' % (lab, a, v)]
    return f


def o_extrude(sp, s, q):
    prof = gen.mk_object(sp, s['obj'])
    pd = prof.pardim
    gp = [_span_params(b) for b in prof.bases]
    C = prof(*gp)
    C = _pad(C.reshape(-1, C.shape[-1]))
    sc = max(1.0, np.max(np.abs(C)), np.max(np.abs(s['amount'])))
    a = np.array(s['amount'], dtype=float)
    f = []
    if not (q.start(pd) == 0 and q.end(pd) == 1 and q.order(pd) == 2):
        f.append('extrude: sweep direction is not linear on [0,1]')
    for v in (0.0, 0.25, 0.5, 1.0):
        Sv = q(*(gp + [np.array([v])])).reshape(-1, 3)
        if not np.max(np.abs(Sv - (C + v * a))) <= RTOL * sc:
            f.append('extrude: section v=%.3g is not profile + v*amount' % v)
            break
    return f


def o_local_x(sp, s, ang):
    """pre-rotation by the returned angle followed by the flip maps e_x onto the requested x-axis."""
    n, x, y = _frame(s)
    import importlib
    ut = importlib.import_module('splipy.utils')
    seg = sp.Curve(controlpoints=[[0.0, 0.0, 0.0], [cos(ang), sin(ang), 0.0]])
    ut.flip_and_move_plane_geometry(seg, (0, 0, 0), s['normal'])
    img = _pad(seg(1.0))[0]
    if not np.linalg.norm(img - x) <= 1e-9:
        return ['rotate_local_x_axis: the flip of R_z(alpha) e_x is %s, requested %s' % (img.tolist(), x.tolist())]
    return []


def o_flip(sp, s, q):
    """The flipped object is the original moved rigidly: e_z -> n, origin -> centre."""
    src = gen.mk_object(sp, s['obj'])
    n, _, _ = _frame(s)
    g = _grid(src)
    A = src(*g)
    A = _pad(A.reshape(-1, A.shape[-1]))
    B = q(*g)
    B = _pad(B.reshape(-1, B.shape[-1]))
    ctr = _v3(s['center'])
    sc = max(1.0, np.max(np.abs(A)), np.max(np.abs(ctr)))
    f = []
    # distances and the height above the plane are preserved
    if not np.allclose(np.linalg.norm(B - ctr, axis=-1), np.linalg.norm(A, axis=-1), rtol=0, atol=RTOL * sc):
        f.append('flip_and_move: distances to the centre not preserved')
    if not np.allclose((B - ctr) @ n, A[:, 2], rtol=0, atol=RTOL * sc):
        f.append('flip_and_move: local z is not mapped to the normal direction')
    return f


_ORACLES = {'line': o_line, 'polygon': o_polygon, 'ngon': o_ngon, 'circle': o_circle, 'ellipse': o_ellipse, 'arc': o_arc,
            'three': o_three, 'square': o_square, 'cube': o_cube, 'disc': o_disc, 'sphere': o_sphere,
            'cylinder': o_cylinder, 'torus': o_torus, 'sphere_vol': o_sphere_vol, 'torus_vol': o_torus_vol,
            'cylinder_vol': o_cylinder_vol, 'revolve': o_revolve, 'revolve_vol': o_revolve, 'extrude': o_extrude,
            'extrude_vol': o_extrude, 'local_x': o_local_x, 'flip': o_flip}


# ---------------------------------------------------------------------------------------------
# bookkeeping

def classify(s, res=None):
    msgs = (res or {}).get('oracle') or []
    for m in msgs:
        if m.startswith('['):
            lab = m[1:m.index(']')]
            if lab in KNOWN_LABELS:
                return lab
    return None


def tags(s, res):
    if s['op'] == 'argobj':
        return ['op=argobj', 'argobj:' + s['base']['op'], 'args:' + s['ctype'],
                {'same': 'args:same-list-object', 'reused': 'args:reused-across-calls', 'types': 'args:container-types'}[s['mode']]]
    out = ['op=' + s['op'], 'stream=' + s.get('stream', 'float')]
    if 'type' in s and s['op'] in ('circle', 'ellipse'):
        t = s['type'].lower()
        out.append('type=p4C1' if t in ('p4c1', 'c1p4') else 'type=p2C0' if t in ('p2c0', 'c0p2') else 'type=invalid')
    if 'type' in s and s['op'] not in ('circle', 'ellipse'):
        out.append('%s:%s' % (s['op'], s['type']))
    n = s.get('normal') or s.get('axis')
    if n is not None:
        if list(n) == [0, 0, 1]:
            out.append('normal=+ez')
        elif n[0] == 0 and n[1] == 0 and n[2] < 0:
            out.append('normal=-ez')
        elif sum(1 for x in n if x != 0) == 1:
            out.append('normal=axis')
        elif all(x != 0 for x in n):
            out.append('normal=octant' + ''.join('+' if x > 0 else '-' for x in n))
        if abs(math.hypot(*n) - 1) > 1e-9:
            out.append('normal=nonunit')
        if s.get('nkind') == 'near-ez':
            out.append('normal=near-ez')
        if s.get('nkind') == 'signed-zero':
            out.append('normal-signed-zero')
    if 'theta' in s:
        th = s['theta']
        sp_ = int(ceil(abs(th) / (2 * pi / 3))) if abs(th) <= 2 * pi else 9
        out.append('spans=%d' % sp_)
        if th < 0:
            out.append('theta<0')
        if abs(th) == 2 * pi:
            out.append('theta=2pi' if th > 0 else 'theta=-2pi')
        if s.get('tkind') == 'threshold':
            out.append('theta=threshold')
    if s['op'] == 'three':
        d = [len(t) for t in s['x']]
        out.append('three:dims=%s' % ('2D' if max(d) == 2 else '3D' if min(d) == 3 else 'mixed'))
        if res is not None and not isinstance(res.get('model'), str):
            pass
    if 'center' in s:
        c = s['center']
        out.append('center=zero' if not any(c) else 'center=%dD' % len(c))
    if 'obj' in s:
        o = s['obj']
        out.append('profile:%s%s' % ('rational' if o['rational'] else 'polynomial',
                                     '-periodic' if any(b['periodic'] >= 0 for b in o['bases']) else ''))
    if s.get('raises'):
        out.append('raises')
    return out


def nontrivial(s, res):
    return not s.get('raises')
