"""Generators of conforming multipatch complexes (shared by C17 and C18).

A *complex* is a dict

  {'family': str, 'pardim': d, 'dim': D, 'patches': [object specs (gen.mk_object layout)],
   'flags': [...]}                                                    (all coordinates dyadic)

built over a global integer lattice: every control point of every patch is `geom(lattice point)`,
so points shared between patches are bit-identical, and weights of shared points are equal.
`scramble` then re-orients every patch by a random one of its 2/8/48 orientations, shuffles the
insertion order and (optionally) produces tolerance-level noise for the implementation side.

Only numpy is used here (no splipy): re-orientation is transpose/flip of the net and a permutation /
reversal of the bases.
"""
import itertools

import numpy as np

# ---------------------------------------------------------------------------------------------
# orientations


def all_orientations(pardim):
    """In the search order of Orientation.compute."""
    return [(list(p), list(f)) for p in itertools.permutations(range(pardim))
            for f in itertools.product([False, True], repeat=pardim)]


def reverse_knots(kn):
    a, b = kn[0], kn[-1]
    return [a + b - x for x in kn[::-1]]


def map_net(cps, perm, flip):
    """numpy statement of `Orientation(perm, flip).map_array` on a net with a trailing component axis."""
    a = np.asarray(cps)
    n = len(perm)
    a = a.transpose(tuple(perm) + tuple(range(n, a.ndim)))
    sl = tuple(slice(None, None, -1) if f else slice(None) for f in flip)
    return a[sl]


def reorient(obj, perm, flip):
    """The object whose net is `Orientation(perm, flip).map_array(obj net)`; bases follow."""
    cps = map_net(np.array(obj['cps'], dtype=float), perm, flip)
    bases = []
    for d in range(len(perm)):
        b = obj['bases'][perm[d]]
        kn = list(b['knots'])
        if flip[d]:
            kn = reverse_knots(kn)
        bases.append({'order': b['order'], 'knots': kn, 'periodic': b['periodic']})
    return {'bases': bases, 'cps': cps.tolist(), 'rational': obj['rational']}


def parity_odd(perm, flip):
    inv = sum(1 for i in range(len(perm)) for j in range(i + 1, len(perm)) if perm[i] > perm[j])
    return (inv + sum(1 for f in flip if f)) % 2 == 1


def section_of(obj, sec):
    """`obj.section(*sec, unwrap_points=False)` on specs (sec entries 0, -1, None)."""
    cps = np.array(obj['cps'], dtype=float)
    sl = tuple(slice(None) if s is None else s for s in sec)
    bases = [b for b, s in zip(obj['bases'], sec) if s is None]
    return {'bases': bases, 'cps': cps[sl].tolist(), 'rational': obj['rational']}


def sections(src, tgt):
    """Same enumeration as splipy.utils.sections (stated independently)."""
    nfixed = src - tgt
    out = []
    for fixed in itertools.combinations(range(src), nfixed):
        for indices in itertools.product([0, -1], repeat=nfixed):
            args = [None] * src
            for f, i in zip(fixed, indices[::-1]):
                args[f] = i
            out.append(args)
    return out


# ---------------------------------------------------------------------------------------------
# bases


def axis_basis(rng, npts, order=None, nonuniform=None):
    """Open basis with `npts` functions of order 2..3 on [0,1]; optional off-centre interior knot."""
    if order is None:
        order = rng.choice([o for o in (2, 3) if o <= npts])
    ninner = npts - order
    if nonuniform is None:
        nonuniform = rng.random() < 0.4
    inner = []
    if ninner == 1:
        inner = [rng.choice([0.25, 0.375, 0.75]) if nonuniform else 0.5]
    elif ninner == 2:
        inner = rng.choice([[0.25, 0.5], [0.125, 0.75], [0.5, 0.625]]) if nonuniform else [0.25, 0.75]
    elif ninner >= 3:
        inner = [(i + 1) / (ninner + 1) for i in range(ninner)]
        if nonuniform:
            inner[0] = inner[0] / 2
    return {'order': order, 'knots': [0.0] * order + inner + [1.0] * order, 'periodic': -1}


def place_basis(rng, b):
    """Exact affine re-placement of the knot vector (power-of-two scale, dyadic shift)."""
    a = rng.choice([1.0, 1.0, 0.5, 2.0, 4.0])
    s = rng.choice([0.0, 0.0, 1.0, -2.5, 3.0])
    return {'order': b['order'], 'knots': [a * t + s for t in b['knots']], 'periodic': b['periodic']}


# ---------------------------------------------------------------------------------------------
# geometry on a lattice


class Geometry:
    """Deterministic map lattice point -> physical point (+ weight)."""

    def __init__(self, rng, ldim, dim, spacing, jitter, rational, weights=(0.5, 1.0, 1.0, 2.0, 1.5, 0.75)):
        self.rng = rng
        self.ldim = ldim
        self.dim = dim
        self.spacing = spacing          # lattice step in physical units (dyadic)
        self.jit = jitter
        self.rational = rational
        self.weights = weights
        self.cache = {}
        self.wcache = {}
        # a shear with dyadic coefficients keeps handedness and breaks symmetry
        self.shear = [[0.0] * ldim for _ in range(dim)]
        for r in range(dim):
            for c in range(ldim):
                self.shear[r][c] = 1.0 if r == c else (rng.choice([0.0, 0.0, 0.125, -0.125, 0.25]) if jitter else 0.0)

    def point(self, lat):
        lat = tuple(lat)
        if lat not in self.cache:
            x = [sum(self.shear[r][c] * lat[c] * self.spacing for c in range(self.ldim)) for r in range(self.dim)]
            if self.jit:
                x = [v + self.rng.randint(-2, 2) / 16.0 * self.spacing for v in x]
            self.cache[lat] = x
        return self.cache[lat]

    def weight(self, lat):
        lat = tuple(lat)
        if lat not in self.wcache:
            self.wcache[lat] = self.rng.choice(self.weights)
        return self.wcache[lat]

    def cp(self, lat):
        x = self.point(lat)
        if self.rational:
            w = self.weight(lat)
            return [v * w for v in x] + [w]
        return list(x)


def patch_from_lattice(rng, geom, lat_of, shape, bases):
    """lat_of(multi-index) -> lattice point."""
    cps = np.zeros(tuple(shape) + (geom.dim + (1 if geom.rational else 0),))
    for idx in np.ndindex(*shape):
        cps[idx] = geom.cp(lat_of(idx))
    return {'bases': [place_basis(rng, b) for b in bases], 'cps': cps.tolist(), 'rational': bool(geom.rational)}


# ---------------------------------------------------------------------------------------------
# families

SHAPES_2D = {
    'L': [(0, 0), (1, 0), (0, 1)],
    'T': [(0, 1), (1, 1), (2, 1), (1, 0)],
    'O': [(0, 0), (1, 0), (2, 0), (0, 1), (2, 1), (0, 2), (1, 2), (2, 2)],
    'U': [(0, 0), (1, 0), (2, 0), (0, 1), (2, 1)],
    'diag': [(0, 0), (1, 1)],            # corner contact only
}


def cells_complex(rng, pardim, dim, cells, npts, rational=False, jitter=True, family='grid', orders=None):
    """Patches = the given unit cells of a `pardim`-dimensional lattice; every cell has `npts[d]`
    control points in direction d; one basis per global axis."""
    geom = Geometry(rng, pardim, dim, 1.0 / LCM, jitter, rational)
    bases = [axis_basis(rng, npts[d], None if orders is None else orders[d]) for d in range(pardim)]
    patches = []
    for cell in cells:
        def lat_of(idx, cell=cell):
            return tuple(cell[d] * LCM + idx[d] * (LCM // (npts[d] - 1)) for d in range(pardim))
        patches.append(patch_from_lattice(rng, geom, lat_of, npts, bases))
    return {'family': family, 'pardim': pardim, 'dim': dim, 'patches': patches, 'flags': []}


LCM = 2  # lattice steps per cell (npts-1 in {1, 2})


def grid_cells(n):
    return list(itertools.product(*[range(k) for k in n]))


def extrude_cells(cells2d, layers):
    return [c + (k,) for c in cells2d for k in range(layers)]


def ring_point(i, n):
    """i-th corner of a closed square/triangle-like polygon with dyadic coordinates."""
    sq = [(1.0, 0.0), (0.0, 1.0), (-1.0, 0.0), (0.0, -1.0)]
    tri = [(1.0, 0.0), (-0.5, 1.0), (-0.5, -1.0)]
    poly = sq if n == 4 else tri
    return poly[i % n]


def ring_complex(rng, pardim, nseg, npatch=1, rational=False, radial=2):
    """Annulus made of `npatch` patches; with npatch == 1 the patch is self-connected (its two
    opposite v-faces coincide).  pardim 2: (r, angle) in the plane; pardim 3: extruded in z."""
    dim = 3 if pardim == 3 else rng.choice([2, 2, 3])
    wtab = {}

    def cp(r, k, z):
        c, s = ring_point(k, nseg)
        x = [r * c, r * s] + ([z] if dim == 3 else [])
        if rational:
            w = wtab.setdefault((r, k % nseg, z), rng.choice([0.5, 1.0, 2.0, 1.5]))
            return [v * w for v in x] + [w]
        return x

    radii = [1.0, 2.0] if radial == 2 else [1.0, 1.5, 2.0]
    per = nseg // npatch
    patches = []
    nz = 2
    for q in range(npatch):
        ks = list(range(q * per, (q + 1) * per + 1))
        shape = (len(radii), len(ks)) + ((nz,) if pardim == 3 else ())
        cps = np.zeros(shape + (dim + (1 if rational else 0),))
        for idx in np.ndindex(*shape):
            z = float(idx[2]) if pardim == 3 else 0.0
            cps[idx] = cp(radii[idx[0]], ks[idx[1]], z)
        bases = [axis_basis(rng, shape[d]) for d in range(pardim)]
        patches.append({'bases': [place_basis(rng, b) for b in bases], 'cps': cps.tolist(), 'rational': bool(rational)})
    fam = 'self-connected' if npatch == 1 else 'ring-%d' % npatch
    return {'family': fam, 'pardim': pardim, 'dim': dim, 'patches': patches, 'flags': ['self'] if npatch == 1 else []}


def torus_complex(rng, pardim, nu=4, nv=4, rational=False):
    """Doubly self-connected patch: a (square) torus.  pardim 2: surface in 3-space (u, v closed);
    pardim 3: solid torus shell (u, v closed, w radial)."""
    wtab = {}
    R = 4.0

    def cp(i, j, r):
        C, S = ring_point(i, nu)
        c, s = ring_point(j, nv)
        rad = R + r * c
        x = [rad * C, rad * S, r * s]
        if rational:
            w = wtab.setdefault((i % nu, j % nv, r), rng.choice([0.5, 1.0, 2.0]))
            return [v * w for v in x] + [w]
        return x

    rs = [1.0] if pardim == 2 else [1.0, 1.5]
    shape = (nu + 1, nv + 1) + ((len(rs),) if pardim == 3 else ())
    cps = np.zeros(shape + (3 + (1 if rational else 0),))
    for idx in np.ndindex(*shape):
        cps[idx] = cp(idx[0], idx[1], rs[idx[2]] if pardim == 3 else rs[0])
    bases = [axis_basis(rng, shape[d]) for d in range(pardim)]
    return {'family': 'doubly-self-connected', 'pardim': pardim, 'dim': 3,
            'patches': [{'bases': [place_basis(rng, b) for b in bases], 'cps': cps.tolist(), 'rational': bool(rational)}],
            'flags': ['self', 'self2']}


def twins_complex(rng, pardim, ntwins=2, rational=False):
    """`ntwins` patches with identical boundary and different interior ('pillow')."""
    dim = {1: rng.choice([2, 3]), 2: rng.choice([2, 3]), 3: 3}[pardim]
    base = cells_complex(rng, pardim, dim, [(0,) * pardim], [3] * pardim, rational=rational, family='twins')
    p0 = base['patches'][0]
    patches = [p0]
    for t in range(1, ntwins):
        q = {'bases': p0['bases'], 'cps': np.array(p0['cps']).tolist(), 'rational': p0['rational']}
        a = np.array(q['cps'])
        centre = (1,) * pardim
        a[centre][0] += 0.25 * t * (a[centre][-1] if rational else 1.0)
        q['cps'] = a.tolist()
        patches.append(q)
    base['patches'] = patches
    base['flags'] = ['twins']
    return base


def star_curves(rng, n=3, rational=False):
    """n curves meeting in one vertex (non-manifold vertex)."""
    dim = rng.choice([2, 3])
    dirs = [(1.0, 0.0, 0.0), (0.0, 1.0, 0.0), (-1.0, -0.5, 0.0), (0.5, -1.0, 1.0)][:n]
    patches = []
    npts = rng.choice([2, 3])
    b = axis_basis(rng, npts)
    w0 = rng.choice([1.0, 2.0]) if rational else 1.0
    for d in dirs:
        cps = []
        for k in range(npts):
            t = k / (npts - 1)
            x = [t * d[c] + (0.125 * t * (1 - t) * (c + 1)) for c in range(dim)]
            w = w0 if k == 0 else (rng.choice([0.5, 1.0, 2.0]) if rational else 1.0)
            cps.append([v * w for v in x] + [w] if rational else x)
        patches.append({'bases': [place_basis(rng, b)], 'cps': cps, 'rational': bool(rational)})
    return {'family': 'star', 'pardim': 1, 'dim': dim, 'patches': patches, 'flags': []}


def random_complex(rng, tier='quick', pardim=None, allow=('grid', 'shape', 'ring', 'torus', 'star', 'diag')):
    """One conforming complex (canonical orientation, canonical order)."""
    if pardim is None:
        pardim = rng.choice([1, 2, 2, 2, 3, 3])
    fam = rng.choice([f for f in allow if not (f == 'star' and pardim != 1) and not (f in ('shape', 'ring', 'torus', 'diag') and pardim == 1)])
    rational = rng.random() < 0.3
    big = tier == 'thorough'
    if fam == 'grid':
        if pardim == 1:
            n = (rng.randint(1, 4),)
        elif pardim == 2:
            n = rng.choice([(1, 1), (2, 1), (1, 2), (2, 2), (3, 1), (3, 2)] + ([(3, 3), (4, 2)] if big else []))
        else:
            n = rng.choice([(1, 1, 1), (2, 1, 1), (1, 2, 1), (1, 1, 2), (2, 2, 1), (2, 1, 2)] + ([(2, 2, 2), (3, 2, 2), (3, 1, 1)] if big else [(2, 2, 2)]))
        dim = {1: rng.choice([2, 3]), 2: rng.choice([2, 2, 3]), 3: 3}[pardim]
        npts = [rng.choice([2, 2, 3]) for _ in range(pardim)]
        if pardim == 3 and len(grid_cells(n)) > 4:
            npts = [2, 2, 2]
        c = cells_complex(rng, pardim, dim, grid_cells(n), npts, rational=rational, jitter=rng.random() < 0.8,
                          family='grid-' + 'x'.join(map(str, n)))
        return c
    if fam in ('shape', 'diag'):
        name = 'diag' if fam == 'diag' else rng.choice(['L', 'T', 'U', 'O'] if (pardim == 2 or big) else ['L', 'T', 'U'])
        cells = SHAPES_2D[name]
        if pardim == 3:
            cells = extrude_cells(cells, rng.choice([1, 1, 2]) if name == 'L' else 1)
        dim = 3 if pardim == 3 else rng.choice([2, 2, 3])
        npts = [2] * pardim if (pardim == 3 or name == 'O') else [rng.choice([2, 3]) for _ in range(pardim)]
        return cells_complex(rng, pardim, dim, cells, npts, rational=rational, jitter=rng.random() < 0.8, family=name + '-shape')
    if fam == 'ring':
        npatch = rng.choice([1, 1, 2])
        nseg = 4 if npatch == 2 else rng.choice([3, 4])
        return ring_complex(rng, pardim, nseg, npatch, rational=rational, radial=rng.choice([2, 2, 3]) if pardim == 2 else 2)
    if fam == 'torus':
        return torus_complex(rng, pardim, nu=rng.choice([3, 4]), nv=rng.choice([3, 4]) if pardim == 2 else 3, rational=rational)
    if fam == 'star':
        return star_curves(rng, rng.choice([3, 4]), rational=rational)
    raise ValueError(fam)


# ---------------------------------------------------------------------------------------------
# scrambling


def scramble(rng, cx, reorient_prob=0.9, noise=None, keep_right=False):
    """Random insertion order + random orientation of every patch.  Returns a new complex dict with
    'patches' (exact) and 'noise' (per patch nested list or None) and 'orients' (applied)."""
    pardim = cx['pardim']
    oris = all_orientations(pardim)
    order = list(range(len(cx['patches'])))
    rng.shuffle(order)
    patches, applied = [], []
    for k in order:
        p = cx['patches'][k]
        if rng.random() < reorient_prob:
            perm, flip = rng.choice(oris)
            while keep_right and parity_odd(perm, flip):
                perm, flip = rng.choice(oris)
        else:
            perm, flip = oris[0]
        patches.append(reorient(p, perm, flip))
        applied.append([perm, [int(f) for f in flip]])
    out = dict(cx)
    out['patches'] = patches
    out['orients'] = applied
    out['order'] = order
    if noise:
        out['noise'] = [(np.array([rng.uniform(-noise, noise) for _ in range(np.array(p['cps']).size)])
                         .reshape(np.array(p['cps']).shape)).tolist() for p in patches]
    else:
        out['noise'] = None
    return out


def noisy(obj, noise):
    if noise is None:
        return obj
    return {'bases': obj['bases'], 'cps': (np.array(obj['cps'], dtype=float) + np.array(noise)).tolist(), 'rational': obj['rational']}
